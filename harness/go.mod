module verif/harness

go 1.23

require (
	github.com/gorilla/websocket v1.4.2
	github.com/jirenius/timerqueue v1.0.0
	github.com/posener/wstest v1.2.0
	github.com/resgateio/resgate v0.0.0
)

require (
	github.com/bsm/openmetrics v0.3.1 // indirect
	github.com/rs/xid v1.3.0 // indirect
)

replace github.com/resgateio/resgate => /repo
