package natsmc

import (
	"fmt"
	"strings"
	"sync"
	"time"

	"github.com/jirenius/timerqueue"
	"github.com/resgateio/resgate/logger"
	rnats "github.com/resgateio/resgate/nats"
	"github.com/resgateio/resgate/server/mq"
)

func init() {
	timerqueue.VerifManual = true
	// extended (pre-response) timers are fired by the explorer too, see overlay/verif_timer.go.txt
	rnats.VerifManualTimers = true
}

// Scenario is one adapter exploration: n concurrent requests, each with a
// scripted server behaviour, plus an event subscription.
type Scenario struct {
	Name    string
	Scripts [][]string // per request: server messages "reply:X", "pre:<ms>", "503"
	Events  int        // number of events the server publishes
	Unsub   bool       // offer Unsubscribe of the event subscription
	Drop    bool       // offer a server side disconnect
	Close   bool       // offer Close()
	// Eager lists the requests that carry a 32 MiB payload and are answered by
	// the server (with the first message of their script) as soon as it has
	// read the control line, i.e. while SendRequest is still publishing.
	Eager []int
	// Big lists the requests whose payload exceeds the server's max_payload
	// (announced as 1024 for the scenario): publishing them fails after the
	// reply subscription was made.
	Big []int
}

func (sc *Scenario) eager(i int) bool {
	for _, b := range sc.Eager {
		if b == i {
			return true
		}
	}
	return false
}

func (sc *Scenario) big(i int) bool {
	for _, b := range sc.Big {
		if b == i {
			return true
		}
	}
	return false
}

type reqModel struct {
	sent      bool
	state     string // pending, popped, extended, done
	shortExt  bool   // extended with a short real-time timer: reply or timeout both possible
	expect    string // completion the model predicts ("" = none yet)
	next      int    // next script index
	inbox     string
	got       []string
	gotAt     []time.Time
	extArmed  time.Time
	extMillis int
	// xfired: the extended timer has expired but its function has not run yet
	// (it runs on a goroutine of its own and may have to wait for the adapter's lock)
	xfired bool
}

// Run executes one action sequence and returns the enabled actions after it
// and the violations found.
type Run struct {
	sc       *Scenario
	srv      *FakeServer
	cl       *rnats.Client
	mu       sync.Mutex
	reqs     []*reqModel
	tq       *timerqueue.Queue
	popped   []interface{}
	poppedI  []int
	order    []int // tq order (request indexes), oldest first
	evSent   int
	evGot    []string
	evAfter  int
	unsubbed bool
	evSub    mq.Unsubscriber
	sentinel int
	closedCB chan error
	closed   bool // adapter Close called
	dropped  bool
	Viol     []string
	subs     map[int]interface{} // request index -> tq element (the *nats.Subscription)
	dry      bool                // pure model run: no I/O (used to enumerate action sequences)
	ext      map[int]*rnats.VerifTimer // request index -> its current extended timer
	newT     []*rnats.VerifTimer       // timers created since last looked at
}

// DryStart returns a run that only executes the model transitions.
func DryStart(sc *Scenario) *Run {
	r := &Run{sc: sc, dry: true, subs: map[int]interface{}{}}
	for range sc.Scripts {
		r.reqs = append(r.reqs, &reqModel{})
	}
	return r
}

// Leaves enumerates every maximal action sequence of the scenario.
func Leaves(sc *Scenario, f func(seq []string)) {
	var rec func(prefix []string)
	rec = func(prefix []string) {
		r := DryStart(sc)
		for _, a := range prefix {
			r.Do(a)
		}
		en := r.Enabled()
		if len(en) == 0 {
			f(prefix)
			return
		}
		for _, a := range en {
			rec(append(append([]string(nil), prefix...), a))
		}
	}
	rec(nil)
}

func (r *Run) fail(format string, a ...interface{}) {
	r.Viol = append(r.Viol, fmt.Sprintf(format, a...))
}

// Start connects a fresh adapter to a fresh fake server.
func Start(sc *Scenario) (*Run, error) {
	MaxPayload = 1048576
	if len(sc.Big) > 0 {
		MaxPayload = 1024
	}
	if len(sc.Eager) > 0 {
		MaxPayload = 64 << 20
	}
	srv, err := NewFakeServer()
	if err != nil {
		return nil, err
	}
	r := &Run{sc: sc, srv: srv, closedCB: make(chan error, 4), subs: map[int]interface{}{}, ext: map[int]*rnats.VerifTimer{}}
	rnats.VerifOnTimer = func(t *rnats.VerifTimer) {
		r.mu.Lock()
		r.newT = append(r.newT, t)
		r.mu.Unlock()
	}
	for range sc.Scripts {
		r.reqs = append(r.reqs, &reqModel{state: ""})
	}
	var tqs []*timerqueue.Queue
	timerqueue.VerifOnNew = func(q *timerqueue.Queue) { tqs = append(tqs, q) }
	r.cl = &rnats.Client{URL: srv.URL(), RequestTimeout: 3 * time.Second, Logger: logger.NewMemLogger(false, false), BufferSize: 256}
	r.cl.SetClosedHandler(func(err error) { r.closedCB <- err })
	if err := r.cl.Connect(); err != nil {
		srv.Stop()
		return nil, err
	}
	timerqueue.VerifOnNew = nil
	if len(tqs) > 0 {
		r.tq = tqs[len(tqs)-1]
	}
	// sentinel subscription: tells when the listener has handled everything before it
	if _, err := r.cl.Subscribe("sentinel", func(string, []byte, error) {
		r.mu.Lock()
		r.sentinel++
		r.mu.Unlock()
	}); err != nil {
		return nil, err
	}
	sub, err := r.cl.Subscribe("event.test.model", func(subj string, payload []byte, _ error) {
		r.mu.Lock()
		r.evGot = append(r.evGot, subj+" "+string(payload))
		if r.unsubbed {
			r.evAfter++
		}
		r.mu.Unlock()
	})
	if err != nil {
		return nil, err
	}
	r.evSub = sub
	r.flushSubs(2)
	return r, nil
}

// flushSubs waits until the server has seen n SUBs.
func (r *Run) flushSubs(n int) {
	dl := time.Now().Add(5 * time.Second)
	for {
		_, subs, _ := r.srv.Snapshot()
		if len(subs) >= n || time.Now().After(dl) || r.srv.Closed() {
			return
		}
		time.Sleep(50 * time.Microsecond)
	}
}

// settle waits until the adapter's listener has handled every message the
// server wrote so far.
func (r *Run) settle() {
	if r.closed || r.dropped || r.srv.Closed() {
		time.Sleep(200 * time.Microsecond)
		return
	}
	r.mu.Lock()
	want := r.sentinel + 1
	r.mu.Unlock()
	if r.srv.Send("sentinel.x", nil, "") == 0 {
		return
	}
	dl := time.Now().Add(5 * time.Second)
	for {
		r.mu.Lock()
		ok := r.sentinel >= want
		r.mu.Unlock()
		if ok || time.Now().After(dl) || r.srv.Closed() {
			return
		}
		time.Sleep(20 * time.Microsecond)
	}
}

// Enabled lists the enabled actions.
func (r *Run) Enabled() []string {
	var out []string
	if r.closed {
		return nil
	}
	// next request to send
	for i, q := range r.reqs {
		if !q.sent {
			out = append(out, fmt.Sprintf("send:%d", i))
			break
		}
	}
	if !r.dropped {
		for i, q := range r.reqs {
			if q.sent && q.next < len(r.sc.Scripts[i]) {
				out = append(out, fmt.Sprintf("srv:%d:%s", i, r.sc.Scripts[i][q.next]))
			}
		}
		if r.evSent < r.sc.Events {
			out = append(out, "evt")
		}
	}
	for i, q := range r.reqs {
		if q.state == "extended" {
			out = append(out, fmt.Sprintf("xfire:%d", i))
		}
		if q.xfired {
			out = append(out, fmt.Sprintf("xrun:%d", i))
		}
	}
	if len(r.order) > 0 {
		out = append(out, fmt.Sprintf("pop:%d", r.order[0]))
	}
	for _, i := range r.poppedI {
		out = append(out, fmt.Sprintf("fire:%d", i))
	}
	if r.sc.Unsub && !r.unsubbed {
		out = append(out, "unsub")
	}
	if r.sc.Drop && !r.dropped {
		out = append(out, "drop")
	}
	if r.sc.Close {
		out = append(out, "close")
	}
	return out
}

func (r *Run) complete(i int, v string) {
	r.mu.Lock()
	r.reqs[i].got = append(r.reqs[i].got, v)
	r.reqs[i].gotAt = append(r.reqs[i].gotAt, time.Now())
	r.mu.Unlock()
}

// Do executes one action.
func (r *Run) Do(a string) {
	f := strings.SplitN(a, ":", 3)
	idx := 0
	if len(f) > 1 {
		fmt.Sscan(f[1], &idx)
	}
	switch f[0] {
	case "send":
		q := r.reqs[idx]
		if r.dry {
			q.sent, q.state = true, "pending"
			if r.dropped || r.sc.big(idx) {
				q.state = "failed"
			} else {
				r.order = append(r.order, idx)
			}
			if r.sc.eager(idx) && !r.dropped {
				r.eagerModel(idx)
			}
			return
		}
		pubs, _, _ := r.srv.Snapshot()
		before := r.tq.VerifElems()
		i := idx
		payload := []byte(`{}`)
		if r.sc.big(idx) {
			payload = []byte(`{"pad":"` + strings.Repeat("x", 4096) + `"}`)
		}
		if r.sc.eager(idx) {
			payload = []byte(`{"pad":"` + strings.Repeat("x", 32<<20) + `"}`)
			first := r.sc.Scripts[idx][0]
			r.srv.mu.Lock()
			r.srv.Eager = func(string) ([]byte, string) {
				if first == "503" {
					return nil, "503"
				}
				return []byte(`{"result":"` + strings.TrimPrefix(first, "reply:") + `"}`), ""
			}
			r.srv.mu.Unlock()
		}
		r.cl.SendRequest(fmt.Sprintf("call.test.%d", idx), payload, func(_ string, data []byte, err error) {
			if err != nil {
				r.complete(i, "ERR "+err.Error())
			} else {
				r.complete(i, string(data))
			}
		})
		q.sent = true
		q.state = "pending"
		if r.sc.big(idx) {
			// the publish is refused by the client library: one completion with
			// an error (from a goroutine), nothing left in the timeout queue
			q.state = "failed"
			dl := time.Now().Add(2 * time.Second)
			for {
				r.mu.Lock()
				n := len(q.got)
				r.mu.Unlock()
				if n > 0 || time.Now().After(dl) {
					break
				}
				time.Sleep(50 * time.Microsecond)
			}
			if after := r.tq.VerifElems(); len(after) != len(before) {
				r.fail("request %d could not be published but left %d element(s) in the timeout queue", idx, len(after)-len(before))
			}
			if pending, _, _ := r.cl.VerifState(); pending != r.modelPending() {
				r.fail("request %d could not be published but the adapter keeps %d pending request(s), model %d", idx, pending, r.modelPending())
			}
			return
		}
		if !r.dropped {
			r.srv.WaitPubs(len(pubs) + 1)
			pubs, _, _ = r.srv.Snapshot()
			if len(pubs) > 0 {
				q.inbox = pubs[len(pubs)-1].Reply
			}
		}
		after := r.tq.VerifElems()
		if r.sc.eager(idx) && !r.dropped {
			// the answer was on its way before SendRequest returned: whatever the
			// adapter did with it, the timer bookkeeping is judged by the invariant
			if len(after) == len(before)+1 {
				r.subs[idx] = after[len(after)-1]
				r.order = append(r.order, idx)
			}
			r.eagerModel(idx)
			r.settle()
			return
		}
		if len(after) == len(before)+1 {
			r.subs[idx] = after[len(after)-1]
			r.order = append(r.order, idx)
		} else if !r.dropped {
			r.fail("request %d was not added to the timeout queue", idx)
		} else {
			// publish failed on a dropped connection: completed with an error by a goroutine
			q.state = "failed"
		}
	case "srv":
		q := r.reqs[idx]
		msg := r.sc.Scripts[idx][q.next]
		q.next++
		switch {
		case strings.HasPrefix(msg, "reply:"):
			payload := `{"result":"` + msg[6:] + `"}`
			if !r.dry {
				r.srv.Send(q.inbox, []byte(payload), "")
			}
			r.modelReply(idx, payload)
		case msg == "503":
			if !r.dry {
				r.srv.Send(q.inbox, nil, "503")
			}
			r.modelReply(idx, "ERR "+mq.ErrNoResponders.Error())
		case strings.HasPrefix(msg, "wait:"):
			// time passing is an explorer action now (xfire); nothing to do
		case strings.HasPrefix(msg, "pre:"):
			ms := 0
			fmt.Sscan(msg[4:], &ms)
			if !r.dry {
				r.srv.Send(q.inbox, []byte(fmt.Sprintf(`timeout:"%d"`, ms)), "")
			}
			had := q.state
			switch q.state {
			case "pending":
				q.state = "extended"
				r.removeOrder(idx)
				q.extArmed, q.extMillis = time.Now(), ms
			case "extended":
				// the new pre-response replaces the previous extended timer
				q.extArmed, q.extMillis = time.Now(), ms
			case "xfired", "popped":
				// the timeout is already due (timer fired / element popped):
				// nothing is re-armed, the request will time out
			}
			if !r.dry {
				r.settle()
				r.mu.Lock()
				nt := r.newT
				r.newT = nil
				r.mu.Unlock()
				switch {
				case had == "pending" || had == "extended":
					if len(nt) != 1 {
						r.fail("pre-response for request %d in state %s armed %d timers, expected 1", idx, had, len(nt))
					} else {
						if old := r.ext[idx]; old != nil && old.Live() {
							r.fail("pre-response for request %d left the previous extended timer armed", idx)
						}
						r.ext[idx] = nt[0]
						if nt[0].D != time.Duration(ms)*time.Millisecond {
							r.fail("pre-response for request %d armed a timer of %v, expected %dms", idx, nt[0].D, ms)
						}
					}
				case len(nt) != 0:
					r.fail("pre-response for request %d in state %s armed a timer although the timeout is already due or the request complete", idx, had)
				}
			}
		}
		if r.dry {
			return
		}
		r.settle()
	case "evt":
		r.evSent++
		if r.dry {
			return
		}
		r.srv.Send("event.test.model.change", []byte(fmt.Sprintf(`{"seq":%d}`, r.evSent)), "")
		r.settle()
	case "xfire":
		q := r.reqs[idx]
		q.state, q.xfired = "xfired", true
		if !r.dry {
			if t := r.ext[idx]; t == nil || !t.Fire() {
				r.fail("request %d: the extended timer the model expects to be armed is not", idx)
			}
		}
	case "xrun":
		q := r.reqs[idx]
		q.xfired = false
		if q.state == "xfired" {
			q.state, q.expect = "done", "ERR "+mq.ErrRequestTimeout.Error()
		}
		if !r.dry {
			if t := r.ext[idx]; t != nil {
				t.Run()
			}
		}
	case "pop":
		v := r.subs[idx]
		if r.dry || r.tq.VerifPop(v) {
			r.popped = append(r.popped, v)
			r.poppedI = append(r.poppedI, idx)
			r.removeOrder(idx)
			if r.reqs[idx].state == "pending" {
				r.reqs[idx].state = "popped"
			}
		} else {
			r.fail("request %d is not in the timeout queue although the model says so", idx)
		}
	case "fire":
		for k, i := range r.poppedI {
			if i == idx {
				v := r.popped[k]
				r.popped = append(r.popped[:k:k], r.popped[k+1:]...)
				r.poppedI = append(r.poppedI[:k:k], r.poppedI[k+1:]...)
				if !r.dry {
					r.tq.VerifCall(v)
				}
				q := r.reqs[idx]
				if q.state == "popped" {
					q.state = "done"
					q.expect = "ERR " + mq.ErrRequestTimeout.Error()
				}
				break
			}
		}
	case "unsub":
		if r.dry {
			r.unsubbed = true
			return
		}
		if err := r.evSub.Unsubscribe(); err != nil {
			r.fail("Unsubscribe returned %v", err)
		}
		r.mu.Lock()
		r.unsubbed = true
		r.mu.Unlock()
	case "drop":
		r.dropped = true
		if r.dry {
			return
		}
		r.srv.Drop()
		select {
		case <-r.closedCB:
		case <-time.After(10 * time.Second):
			r.fail("closed handler not invoked within 10s after the server dropped the connection")
		}
	case "close":
		r.closed = true
		if r.dry {
			return
		}
		r.cl.Close()
	}
	if r.dry {
		return
	}
	r.invariant(a)
}

func (r *Run) removeOrder(idx int) {
	for k, i := range r.order {
		if i == idx {
			r.order = append(r.order[:k:k], r.order[k+1:]...)
			return
		}
	}
}

// modelReply: a final reply reaches the adapter.
func (r *Run) modelReply(idx int, v string) {
	q := r.reqs[idx]
	switch q.state {
	case "pending":
		r.removeOrder(idx)
		q.state, q.expect = "done", v
	case "popped":
		q.state, q.expect = "done", v
	case "extended", "xfired":
		// a fired timer whose function has not run yet loses against the reply
		q.state, q.expect = "done", v
	}
}

// invariant: every pending request has exactly one live timer.
func (r *Run) invariant(after string) {
	if r.closed {
		return
	}
	pending, extended, queued := r.cl.VerifState()
	want := 0
	short := false
	for _, q := range r.reqs {
		if q.state == "pending" || q.state == "popped" || q.state == "extended" || q.state == "xfired" {
			want++
		}
		if q.shortExt {
			short = true
		}
	}
	if short || r.dropped {
		return // a short real-time timer may have fired in the meantime
	}
	if pending != want {
		r.fail("after %s: adapter has %d pending requests, model %d", after, pending, want)
	}
	if pending != queued+len(r.popped)+extended-r.stalePopped() {
		r.fail("after %s: %d pending requests but %d queued + %d popped + %d extended timers", after, pending, queued, len(r.popped), extended)
	}
}

// eagerModel: the first scripted message of request idx was delivered while
// the request was being published.
func (r *Run) eagerModel(idx int) {
	q := r.reqs[idx]
	msg := r.sc.Scripts[idx][q.next]
	q.next++
	if msg == "503" {
		r.modelReply(idx, "ERR "+mq.ErrNoResponders.Error())
	} else {
		r.modelReply(idx, `{"result":"`+strings.TrimPrefix(msg, "reply:")+`"}`)
	}
}

// modelPending is the number of requests the model takes to be pending.
func (r *Run) modelPending() int {
	n := 0
	for _, q := range r.reqs {
		if q.state == "pending" || q.state == "popped" || q.state == "extended" || q.state == "xfired" {
			n++
		}
	}
	return n
}

// stalePopped counts popped timers whose request has completed meanwhile.
func (r *Run) stalePopped() int {
	n := 0
	for _, i := range r.poppedI {
		if r.reqs[i].state == "done" {
			n++
		}
	}
	return n
}

// Finish drains (fires every remaining timer, waits for short extensions) and
// evaluates the end-of-run oracle.
func (r *Run) Finish() []string {
	if !r.closed {
		for len(r.order) > 0 {
			r.Do(fmt.Sprintf("pop:%d", r.order[0]))
		}
		for len(r.poppedI) > 0 {
			r.Do(fmt.Sprintf("fire:%d", r.poppedI[0]))
		}
		for i, q := range r.reqs {
			if q.state == "extended" {
				r.Do(fmt.Sprintf("xfire:%d", i))
			}
			if q.xfired {
				r.Do(fmt.Sprintf("xrun:%d", i))
			}
		}
		// short extended timers run on the real clock
		dl := time.Now().Add(3 * time.Second)
		for {
			waiting := false
			r.mu.Lock()
			for _, q := range r.reqs {
				if q.state == "extended" && q.shortExt && len(q.got) == 0 {
					waiting = true
				}
			}
			r.mu.Unlock()
			if !waiting || time.Now().After(dl) {
				break
			}
			time.Sleep(200 * time.Microsecond)
		}
		r.settle()
	}
	time.Sleep(300 * time.Microsecond)
	r.mu.Lock()
	defer r.mu.Unlock()
	for i, q := range r.reqs {
		if !q.sent {
			continue
		}
		if len(q.got) > 1 {
			r.fail("request %d completed %d times: %v", i, len(q.got), q.got)
			continue
		}
		if r.closed || r.dropped {
			continue // at most once is all that is promised
		}
		switch {
		case q.state == "extended" && q.shortExt:
			if len(q.got) != 1 || q.got[0] != "ERR "+mq.ErrRequestTimeout.Error() {
				r.fail("request %d: pre-response followed by silence completed with %v, expected a timeout", i, q.got)
			} else if d := q.gotAt[0].Sub(q.extArmed); d < time.Duration(q.extMillis)*time.Millisecond {
				r.fail("request %d: extended timeout of %dms fired after %v", i, q.extMillis, d)
			}
		case q.state == "extended":
			if len(q.got) != 0 {
				r.fail("request %d: completed with %v although its extended timeout cannot have elapsed", i, q.got)
			}
		case strings.HasPrefix(q.expect, "EITHER "):
			if len(q.got) != 1 || (q.got[0] != q.expect[7:] && q.got[0] != "ERR "+mq.ErrRequestTimeout.Error()) {
				r.fail("request %d completed with %v, expected %s or a timeout", i, q.got, q.expect[7:])
			}
		case q.expect != "":
			if len(q.got) != 1 || q.got[0] != q.expect {
				r.fail("request %d completed with %v, expected exactly %q", i, q.got, q.expect)
			}
		default:
			if len(q.got) != 1 {
				r.fail("request %d never completed (state %s)", i, q.state)
			}
		}
	}
	// events in publish order, none after Unsubscribe returned
	if r.evAfter > 0 {
		r.fail("%d event callback(s) after Unsubscribe returned", r.evAfter)
	}
	for k, e := range r.evGot {
		want := fmt.Sprintf(`event.test.model.change {"seq":%d}`, k+1)
		if e != want {
			r.fail("event callback %d was %q, expected %q", k, e, want)
			break
		}
	}
	if !r.unsubbed && !r.closed && !r.dropped && len(r.evGot) != r.evSent {
		r.fail("%d of %d events delivered", len(r.evGot), r.evSent)
	}
	return r.Viol
}

// Stop tears everything down.
func (r *Run) Stop() {
	if !r.closed {
		r.cl.Close()
	}
	r.srv.Stop()
}
