// Package natsmc explores the NATS adapter (nats/nats.go) against an
// in-process fake server that speaks the NATS text protocol over loopback TCP.
package natsmc

import (
	"time"
	"bufio"
	"fmt"
	"net"
	"strconv"
	"strings"
	"sync"
)

// Pub is a message published by the client.
type Pub struct {
	Subject string
	Reply   string
	Payload []byte
}

// FakeServer is a minimal NATS server: one client connection, subscriptions
// are recorded, PUBs are handed to the harness, which decides what to send.
type FakeServer struct {
	ln   net.Listener
	mu   sync.Mutex
	cond *sync.Cond
	conn net.Conn
	w    *bufio.Writer
	subs map[string]string // sid -> subject
	Pubs []Pub
	Subs []string // log of SUB subjects
	Unsubs int
	pongs  int
	Errs   []string // -ERR sent
	closed bool
	// Eager, if set, gives the answer to a request with a payload above 1 MiB
	// before that payload is read (see the PUB case of read).
	Eager func(subject string) (payload []byte, status string)
	// MaxControlLine is the server's limit for the arguments of a control line.
	MaxControlLine int
	done           chan struct{}
}

// MaxPayload is the max_payload the next fake server announces in INFO.
var MaxPayload = 1048576

func NewFakeServer() (*FakeServer, error) {
	ln, err := net.Listen("tcp", "127.0.0.1:0")
	if err != nil {
		return nil, err
	}
	s := &FakeServer{ln: ln, subs: map[string]string{}, MaxControlLine: 4096, done: make(chan struct{})}
	s.cond = sync.NewCond(&s.mu)
	go s.accept()
	return s, nil
}

func (s *FakeServer) URL() string { return "nats://" + s.ln.Addr().String() }

func (s *FakeServer) accept() {
	c, err := s.ln.Accept()
	if err != nil {
		close(s.done)
		return
	}
	s.mu.Lock()
	s.conn = c
	s.w = bufio.NewWriterSize(c, 1<<16)
	s.w.WriteString(`INFO {"server_id":"FAKE","server_name":"fake","version":"2.6.6","proto":1,"go":"go","host":"127.0.0.1","port":4222,"headers":true,"max_payload":` + strconv.Itoa(MaxPayload) + `,"client_id":1}` + "\r\n")
	s.w.Flush()
	s.mu.Unlock()
	s.read(c)
	close(s.done)
}

func (s *FakeServer) read(c net.Conn) {
	r := bufio.NewReaderSize(c, 1<<16)
	for {
		line, err := readLine(r)
		if err != nil {
			s.mu.Lock()
			s.closed = true
			s.cond.Broadcast()
			s.mu.Unlock()
			return
		}
		op := line
		args := ""
		if i := strings.IndexAny(line, " \t"); i >= 0 {
			op, args = line[:i], strings.TrimLeft(line[i+1:], " \t")
		}
		switch strings.ToUpper(op) {
		case "CONNECT":
		case "PING":
			s.mu.Lock()
			s.w.WriteString("PONG\r\n")
			s.w.Flush()
			s.mu.Unlock()
		case "PONG":
			s.mu.Lock()
			s.pongs++
			s.cond.Broadcast()
			s.mu.Unlock()
		case "SUB":
			if len(args) > s.MaxControlLine {
				s.fatal("Maximum Control Line Exceeded")
				return
			}
			f := strings.Fields(args)
			s.mu.Lock()
			if len(f) >= 2 {
				s.subs[f[len(f)-1]] = f[0]
				s.Subs = append(s.Subs, f[0])
			}
			s.cond.Broadcast()
			s.mu.Unlock()
		case "UNSUB":
			f := strings.Fields(args)
			s.mu.Lock()
			if len(f) >= 1 {
				delete(s.subs, f[0])
			}
			s.Unsubs++
			s.cond.Broadcast()
			s.mu.Unlock()
		case "PUB", "HPUB":
			if len(args) > s.MaxControlLine {
				s.fatal("Maximum Control Line Exceeded")
				return
			}
			f := strings.Fields(args)
			if len(f) < 2 {
				s.fatal("Parser Error")
				return
			}
			n, _ := strconv.Atoi(f[len(f)-1])
			// an eager service: it answers as soon as it has seen the control line
			// of a big request, while the client is still writing the payload
			if eager := s.Eager; eager != nil && n > 1<<20 && ((op == "PUB" && len(f) == 3) || (op == "HPUB" && len(f) == 4)) {
				payload, status := eager(f[0])
				s.Send(f[1], payload, status)
				time.Sleep(100 * time.Millisecond)
			}
			buf := make([]byte, n+2)
			if _, err := readFull(r, buf); err != nil {
				return
			}
			p := Pub{Subject: f[0], Payload: buf[:n]}
			if (op == "PUB" && len(f) == 3) || (op == "HPUB" && len(f) == 4) {
				p.Reply = f[1]
			}
			s.mu.Lock()
			s.Pubs = append(s.Pubs, p)
			s.cond.Broadcast()
			s.mu.Unlock()
		default:
			s.fatal("Unknown Protocol Operation")
			return
		}
	}
}

func readFull(r *bufio.Reader, b []byte) (int, error) {
	n := 0
	for n < len(b) {
		k, err := r.Read(b[n:])
		n += k
		if err != nil {
			return n, err
		}
	}
	return n, nil
}

func readLine(r *bufio.Reader) (string, error) {
	var sb strings.Builder
	for {
		part, isPrefix, err := r.ReadLine()
		if err != nil {
			return "", err
		}
		sb.Write(part)
		if !isPrefix {
			return sb.String(), nil
		}
	}
}

// fatal sends -ERR and closes the connection, like the real server does for
// protocol violations.
func (s *FakeServer) fatal(msg string) {
	s.mu.Lock()
	s.Errs = append(s.Errs, msg)
	s.w.WriteString("-ERR '" + msg + "'\r\n")
	s.w.Flush()
	s.conn.Close()
	s.closed = true
	s.cond.Broadcast()
	s.mu.Unlock()
}

// sidsFor returns the sids whose subject matches subj (literal or "x.*").
func (s *FakeServer) sidsFor(subj string) []string {
	var out []string
	for sid, pat := range s.subs {
		if pat == subj {
			out = append(out, sid)
		} else if strings.HasSuffix(pat, ".*") {
			pre := pat[:len(pat)-1]
			if strings.HasPrefix(subj, pre) && !strings.Contains(subj[len(pre):], ".") && len(subj) > len(pre) {
				out = append(out, sid)
			}
		}
	}
	return out
}

// Send delivers a message on subj to the matching subscriptions. status, if
// non-empty, sends an HMSG with that Status header and no payload.
func (s *FakeServer) Send(subj string, payload []byte, status string) int {
	s.mu.Lock()
	defer s.mu.Unlock()
	if s.closed || s.w == nil {
		return 0
	}
	sids := s.sidsFor(subj)
	for _, sid := range sids {
		if status != "" {
			hdr := "NATS/1.0 " + status + "\r\n\r\n"
			fmt.Fprintf(s.w, "HMSG %s %s %d %d\r\n%s\r\n", subj, sid, len(hdr), len(hdr), hdr)
		} else {
			fmt.Fprintf(s.w, "MSG %s %s %d\r\n", subj, sid, len(payload))
			s.w.Write(payload)
			s.w.WriteString("\r\n")
		}
	}
	s.w.Flush()
	return len(sids)
}

// Sync makes sure the client has parsed everything written so far: PING and
// wait for the PONG.
func (s *FakeServer) Sync() bool {
	s.mu.Lock()
	defer s.mu.Unlock()
	if s.closed || s.w == nil {
		return false
	}
	want := s.pongs + 1
	s.w.WriteString("PING\r\n")
	s.w.Flush()
	for s.pongs < want && !s.closed {
		s.cond.Wait()
	}
	return s.pongs >= want
}

// WaitPubs waits until n PUBs have been received (or the connection closed).
func (s *FakeServer) WaitPubs(n int) bool {
	s.mu.Lock()
	defer s.mu.Unlock()
	for len(s.Pubs) < n && !s.closed {
		s.cond.Wait()
	}
	return len(s.Pubs) >= n
}

// Drop closes the client connection from the server side.
func (s *FakeServer) Drop() {
	s.mu.Lock()
	if s.conn != nil {
		s.conn.Close()
	}
	s.closed = true
	s.cond.Broadcast()
	s.mu.Unlock()
}

// Closed reports whether the connection is gone.
func (s *FakeServer) Closed() bool {
	s.mu.Lock()
	defer s.mu.Unlock()
	return s.closed
}

// Stop releases the listener and connection.
func (s *FakeServer) Stop() {
	s.ln.Close()
	s.Drop()
}

// Snapshot returns copies of the logs.
func (s *FakeServer) Snapshot() (pubs []Pub, subs []string, errs []string) {
	s.mu.Lock()
	defer s.mu.Unlock()
	return append([]Pub(nil), s.Pubs...), append([]string(nil), s.Subs...), append([]string(nil), s.Errs...)
}
