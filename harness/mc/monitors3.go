package mc

import (
	"encoding/json"
	"sort"
	"strings"
)

// ---------------------------------------------------------------------------
// CountMon: direct subscription accounting (C08).
// ---------------------------------------------------------------------------

type reqCtx struct {
	overlap bool // (unsubscribe) sent while a subscribe/get on the same rid was outstanding
	clean  bool // sent at an internally quiet state with no other request on the rid outstanding
	direct int  // client's count at send time
	held   bool
	gw     int // the gateway's own count at the last quiet state before it was sent
}

type CountMon struct {
	inited    bool
	ctx       map[*PendingReq]*reqCtx
	prevQuiet bool
	seenRsp   []int
	known     map[*PendingReq]bool
	overlap   map[string]bool
	// gw is the gateway's own direct count per connection label and rid, as of
	// the last quiet state
	gw map[string]map[string]int
}

func (m *CountMon) Step(w *World, _ string) {
	if !m.inited {
		m.inited = true
		m.ctx = map[*PendingReq]*reqCtx{}
		m.known = map[*PendingReq]bool{}
		m.seenRsp = make([]int, len(w.Conns))
		m.prevQuiet = true
	}
	quiet := w.internalQuiet()
	for i, c := range w.Conns {
		// requests sent in this action
		for _, p := range c.Client.Pending {
			if m.known[p] {
				continue
			}
			m.known[p] = true
			others := 0
			ov := false
			for _, q := range c.Client.Pending {
				if q != p && q.RID == p.RID && q.Action != "version" {
					others++
					if q.Action == "subscribe" || q.Action == "get" {
						ov = true
					}
				}
			}
			m.ctx[p] = &reqCtx{overlap: ov && p.Action == "unsubscribe",clean: m.prevQuiet && others == 0 && len(w.MQ.Pending()) == 0, direct: c.Client.Direct[p.RID], held: c.Client.Holds(p.RID), gw: m.gw[c.Label][p.RID]}
		}
		rs := c.Client.Resp
		for _, r := range rs[m.seenRsp[i]:] {
			p := r.Req
			if p == nil {
				continue
			}
			cx := m.ctx[p]
			if cx == nil {
				// sent and answered within one action
				cx = &reqCtx{clean: false}
			}
			if p.Action == "unsubscribe" && cx.overlap && !r.IsErr {
				// known-finding context: the unsubscribe consumed the count taken by the outstanding request
				if m.overlap == nil {
					m.overlap = map[string]bool{}
				}
				m.overlap[c.Label+" "+p.RID] = true
			}
			if p.Action == "unsubscribe" && cx.clean {
				// where the client cannot tell what it holds (a resource response
				// with an error in place of the resource), the request is judged
				// against the number the gateway itself held when it arrived
				if c.Client.Ambiguous[p.RID] {
					cx.direct = cx.gw
				}
				want := ""
				switch {
				case p.BadCount:
					want = "system.invalidParams"
				case p.Count <= cx.direct:
					want = ""
				default:
					want = "system.noSubscription"
				}
				got := ""
				if r.IsErr {
					got = r.Code
				}
				if got != want {
					w.Fail("C08", "unsubscribe-verdict", "%s: %s count=%d (bad=%v) with %d direct subscription(s) answered %q, expected %q", c.Label, p.Method, p.Count, p.BadCount, cx.direct, got, want)
				}
			}
		}
		m.seenRsp[i] = len(rs)
	}
	if quiet {
		m.compare(w, false)
		m.gw = map[string]map[string]int{}
		for _, cs := range w.ConnSnaps() {
			d := map[string]int{}
			for _, x := range cs.Subs {
				d[x.RID] = x.Direct
			}
			m.gw[w.label(cs.CID)] = d
		}
	}
	m.prevQuiet = quiet
}

// compare checks gateway direct counts against the client's counter model for
// every rid without an outstanding request.
func (m *CountMon) compare(w *World, end bool) {
	snaps := w.ConnSnaps()
	for _, c := range w.Conns {
		if c.Disposed {
			continue
		}
		var cs *struct{ subs map[string]int }
		for _, s := range snaps {
			if s.CID == c.CID {
				cs = &struct{ subs map[string]int }{map[string]int{}}
				for _, x := range s.Subs {
					cs.subs[x.RID] = x.Direct
					if end && x.Direct == 0 && x.Indirect == 0 {
						w.Fail("C08", "residue", "%s: subscription object for %s left behind with no direct or indirect subscription (state %d)", c.Label, x.RID, x.State)
					}
				}
			}
		}
		if cs == nil {
			continue
		}
		busy := map[string]bool{}
		for _, p := range c.Client.Pending {
			busy[p.RID] = true
		}
		if len(c.Client.Pending) > 0 && !end {
			// resource responses of pending call/new requests may touch any rid
			for _, p := range c.Client.Pending {
				if p.Action == "call" || p.Action == "new" || p.Action == "auth" {
					return
				}
			}
		}
		rids := map[string]bool{}
		for r := range cs.subs {
			rids[r] = true
		}
		for r := range c.Client.Direct {
			rids[r] = true
		}
		var list []string
		for r := range rids {
			list = append(list, r)
		}
		sort.Strings(list)
		for _, r := range list {
			if busy[r] || c.Client.Ambiguous[r] {
				continue
			}
			if cs.subs[r] != c.Client.Direct[r] {
				kind := "count-mismatch"
				if m.overlap[c.Label+" "+r] {
					kind = "unsubscribe-overlap:count-mismatch"
				}
				w.Fail("C08", kind, "%s: gateway holds %d direct subscription(s) on %s but responses and events add up to %d", c.Label, cs.subs[r], r, c.Client.Direct[r])
			}
		}
	}
}

func (m *CountMon) End(w *World) {
	m.Step(w, "")
	m.compare(w, true)
	// a request for a resource the connection had nothing on is evaluated afresh
	reqs := w.MQ.Requests()
	for _, c := range w.Conns {
		for _, r := range c.Client.Resp {
			p := r.Req
			if p == nil || (p.Action != "subscribe" && p.Action != "get") {
				continue
			}
			cx := m.ctx[p]
			if cx == nil || !cx.clean || cx.direct != 0 || cx.held || c.Client.Ambiguous[p.RID] {
				continue
			}
			name, q := splitKey(strings.ReplaceAll(p.RID, "{cid}", c.CID))
			found := false
			for _, rq := range reqs {
				if rq.Subject == "access."+name && rq.Time >= p.SentAt {
					f := parseReq(rq.Payload)
					if f.CID == c.CID && f.Query == q {
						found = true
					}
				}
			}
			if !found && !(r.IsErr && (r.Code == "system.invalidRequest" || r.Code == "system.subscriptionLimitExceeded")) {
				w.Fail("C08", "not-evaluated-afresh", "%s: %s (sent at t=%d with nothing held for the resource) was answered without asking the services for access", c.Label, p.Method, p.SentAt)
			}
		}
	}
}

// ---------------------------------------------------------------------------
// IsoMon: connection isolation (C10).
// ---------------------------------------------------------------------------

type IsoMon struct {
	seenFrames []int
	seenReq    int
	lastTok    map[string]string
	lastTID    map[string]string
	resets     map[string]map[string]bool // token reset subject -> listed tids
	seenLog    int
	// AllowCIDInPayload is set by scenarios whose service model echoes cids.
	AllowCIDInPayload bool
}

// usedCID reports whether the connection itself has used cid in a request
// (a client may name the resource of another connection by its literal id).
func (m *IsoMon) usedCID(c *Conn, cid string) bool {
	for _, p := range c.Client.Pending {
		if strings.Contains(p.Method, cid) {
			return true
		}
	}
	for _, r := range c.Client.Resp {
		if r.Req != nil && strings.Contains(r.Req.Method, cid) {
			return true
		}
	}
	return false
}

func (m *IsoMon) Step(w *World, _ string) {
	if m.seenFrames == nil {
		m.seenFrames = make([]int, len(w.Conns))
		m.lastTok = map[string]string{}
		m.lastTID = map[string]string{}
	}
	cids := w.CIDs()
	for i, c := range w.Conns {
		for _, f := range c.Frames[m.seenFrames[i]:] {
			if m.AllowCIDInPayload {
				break
			}
			for _, cid := range cids {
				if strings.Contains(string(f), cid) && !m.usedCID(c, cid) {
					w.Fail("C10", "cid-in-frame", "frame to %s contains the connection id of %s: %s", c.Label, w.label(cid), w.Canon(string(f)))
				}
			}
			// an event named with a resource id this client does not hold, but which
			// is the client-facing id under which another connection holds a resource
			var ev struct {
				Event *string `json:"event"`
			}
			specific := false // is the event named with a connection specific id?
			if json.Unmarshal(f, &ev) == nil && ev.Event != nil {
				specific = strings.Contains(*ev.Event, "{cid}")
				for _, cid := range cids {
					if strings.Contains(*ev.Event, cid) {
						specific = true
					}
				}
			}
			if specific {
				held := func(cl *RefClient) bool {
					for rid := range cl.Store {
						if strings.HasPrefix(*ev.Event, rid+".") {
							return true
						}
					}
					for _, p := range cl.Pending {
						if p.RID != "" && strings.HasPrefix(*ev.Event, p.RID+".") {
							return true
						}
					}
					return false
				}
				if !held(c.Client) {
					for j, o := range w.Conns {
						if j != i && held(o.Client) {
							w.Fail("C10", "rid-of-other-connection", "%s received event %s: it holds no such resource, %s holds it under that id", c.Label, w.Canon(*ev.Event), o.Label)
						}
					}
				}
			}
		}
		m.seenFrames[i] = len(c.Frames)
	}
	w.MQ.mu.Lock()
	reqs := append([]*Req(nil), w.MQ.reqs[m.seenReq:]...)
	m.seenReq = len(w.MQ.reqs)
	recs := append([]MQRecord(nil), w.MQ.log[m.seenLog:]...)
	m.seenLog = len(w.MQ.log)
	w.MQ.mu.Unlock()
	for _, r := range recs {
		if r.Kind == "EVT" && strings.HasPrefix(r.Subject, "conn.") && strings.HasSuffix(r.Subject, ".token") {
			cid := r.Subject[5 : len(r.Subject)-6]
			var te struct {
				Token json.RawMessage `json:"token"`
				TID   string          `json:"tid"`
			}
			json.Unmarshal([]byte(r.Payload), &te)
			m.lastTok[cid] = string(te.Token)
			m.lastTID[cid] = te.TID
		}
		if r.Kind == "EVT" && r.Subject == "system.tokenReset" {
			var tr struct {
				TIDs    []string `json:"tids"`
				Subject string   `json:"subject"`
			}
			json.Unmarshal([]byte(r.Payload), &tr)
			if m.resets == nil {
				m.resets = map[string]map[string]bool{}
			}
			set := m.resets[tr.Subject]
			if set == nil {
				set = map[string]bool{}
				m.resets[tr.Subject] = set
			}
			for _, t := range tr.TIDs {
				set[t] = true
			}
		}
	}
	for _, r := range reqs {
		f := parseReq(r.Payload)
		// a cid inside the subject must be the requester's own
		for _, cid := range cids {
			if strings.Contains(r.Subject, cid) && f.CID != "" && cid != f.CID && !(connByCID(w, f.CID) != nil && m.usedCID(connByCID(w, f.CID), cid)) {
				w.Fail("C10", "foreign-cid-in-subject", "%s is made for %s but its subject names %s", r.CSubject, w.label(f.CID), w.label(cid))
			}
		}
		// a token reset only concerns connections whose token id was listed
		if set, ok := m.resets[r.Subject]; ok {
			if tid := m.lastTID[f.CID]; tid == "" || !set[tid] {
				w.Fail("C10", "tokenreset-fanout", "%s was sent for %s, whose token id %q was not listed in the token reset", r.CSubject, w.label(f.CID), tid)
			}
		}
		if strings.Contains(r.Subject, "{cid}") {
			w.Fail("C10", "unexpanded-cid", "%s: {cid} tag not expanded towards the service", r.CSubject)
		}
	}
	if w.internalQuiet() {
		for _, cs := range w.ConnSnaps() {
			want, ok := m.lastTok[cs.CID]
			if !ok {
				want = ""
			}
			if cs.Token != want {
				w.Fail("C10", "token-mismatch", "%s holds token %q but the last token event addressed to it carried %q", w.label(cs.CID), cs.Token, want)
			}
		}
	}
}

func (m *IsoMon) End(w *World) { m.Step(w, "") }

// ---------------------------------------------------------------------------
// DiscMon: disconnect cleanup (C11).
// ---------------------------------------------------------------------------

type DiscMon struct {
	goneAt  map[string]int // cid -> time at which the disposal had been processed
	seenReq int
	seenF   []int
	// LateFrames counts frames written to a connection after its disposal.
	LateFrames int
}

func (m *DiscMon) Step(w *World, _ string) {
	if m.goneAt == nil {
		m.goneAt = map[string]int{}
		m.seenF = make([]int, len(w.Conns))
	}
	for _, c := range w.Conns {
		if c.Disposed {
			if _, ok := m.goneAt[c.CID]; !ok && !w.Serv.VerifHasConn(c.CID) {
				m.goneAt[c.CID] = w.time
				if w.MQ.Subscribed("conn."+c.CID) != nil {
					w.Fail("C11", "conn-subscription-kept", "%s is disposed but conn.%s is still subscribed", c.Label, "<"+c.Label+">")
				}
			}
		}
	}
	for _, h := range w.HTTPs {
		if h.Done && h.CID != "-" && h.CID != "" {
			if _, ok := m.goneAt[h.CID]; !ok {
				m.goneAt[h.CID] = w.time
				if w.MQ.Subscribed("conn."+h.CID) != nil {
					w.Fail("C11", "conn-subscription-kept", "temporary connection of %s is gone but its conn subscription is still active", h.Label)
				}
			}
		}
	}
	w.MQ.mu.Lock()
	reqs := append([]*Req(nil), w.MQ.reqs[m.seenReq:]...)
	m.seenReq = len(w.MQ.reqs)
	w.MQ.mu.Unlock()
	for _, r := range reqs {
		f := parseReq(r.Payload)
		if t, ok := m.goneAt[f.CID]; ok && f.CID != "" && r.Time > t {
			w.Fail("C11", "request-after-disconnect", "%s was published at t=%d on behalf of %s, whose disposal completed at t=%d", r.CSubject, r.Time, w.label(f.CID), t)
		}
	}
	// A frame written to the closed socket of the connection itself (the reply
	// to a request whose answer was queued behind the disposal) is not judged:
	// the property speaks of requests made on the connection's behalf and of
	// effects on other connections and on the cache, and such a frame is neither.
	for i, c := range w.Conns {
		if t, ok := m.goneAt[c.CID]; ok && len(c.Frames) > m.seenF[i] && w.time > t {
			m.LateFrames++
		}
		m.seenF[i] = len(c.Frames)
	}
}

func (m *DiscMon) End(w *World) {
	m.Step(w, "")
	for _, c := range w.Conns {
		if c.Disposed {
			if _, ok := m.goneAt[c.CID]; !ok {
				w.Fail("C11", "not-disposed", "%s was closed but is still registered at quiescence", c.Label)
			}
		}
	}
	for _, cs := range w.ConnSnaps() {
		for _, c := range w.Conns {
			if c.CID == cs.CID && c.Disposed {
				w.Fail("C11", "still-registered", "%s was closed but is still in the connection table", c.Label)
			}
		}
	}
	// its place in the token-reset fan-out is released too
	for _, cid := range w.Cache.VerifConns() {
		if _, gone := m.goneAt[cid]; gone {
			w.Fail("C11", "tokenreset-table-kept", "%s is disposed but still registered for token reset fan-out", w.label(cid))
		}
	}
}
