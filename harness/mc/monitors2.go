package mc

import (
	"fmt"
	"net/http/httptest"
	"regexp"
	"sort"
	"strconv"
	"strings"
)

// ---------------------------------------------------------------------------
// SubjectMon: subject hygiene at the messaging boundary (C14, always on).
// ---------------------------------------------------------------------------

type SubjectMon struct{ seen int }

// ValidSubject reports whether s consists of non-empty dot-separated tokens
// of printable non-space ASCII without wildcards.
func ValidSubject(s string) bool {
	if s == "" {
		return false
	}
	start := true
	for i := 0; i < len(s); i++ {
		c := s[i]
		if c == '.' {
			if start {
				return false
			}
			start = true
			continue
		}
		if c < 33 || c > 126 || c == '*' || c == '>' || c == '?' {
			return false
		}
		start = false
	}
	return !start
}

func (m *SubjectMon) Step(w *World, _ string) {
	w.MQ.mu.Lock()
	recs := w.MQ.log[m.seen:]
	m.seen = len(w.MQ.log)
	w.MQ.mu.Unlock()
	for _, r := range recs {
		if r.Kind == "REQ" || r.Kind == "SUB" {
			if !ValidSubject(r.Subject) {
				w.Fail("C14", "bad-subject", "gateway used subject %q (%s)", w.Canon(r.Subject), r.Kind)
			}
		}
	}
}

func (m *SubjectMon) End(w *World) { m.Step(w, "") }

// ---------------------------------------------------------------------------
// CacheMon: cache entry lifecycle (C09).
// ---------------------------------------------------------------------------

type CacheMon struct {
	hooked bool
	// getEpoch is the MQ subscription epoch under which data was requested
	seenReq int
}

func (m *CacheMon) hook(w *World) {
	if m.hooked {
		return
	}
	m.hooked = true
	w.MQ.mu.Lock()
	w.MQ.onReq = append(w.MQ.onReq, func(r *Req) {
		if strings.HasPrefix(r.Subject, "get.") {
			name := r.Subject[4:]
			if r.TooLong {
				return
			}
			if w.MQ.Subscribed("event."+name) == nil {
				w.Fail("C09", "get-without-subscription", "get.%s requested while event.%s is not subscribed", w.Canon(name), w.Canon(name))
			}
		}
	})
	w.MQ.mu.Unlock()
}

// internalQuiet reports whether no worker closure or task is pending.
func (w *World) internalQuiet() bool {
	return len(w.S.Runnable()) == 0 && len(w.S.Tasks()) == 0
}

func (m *CacheMon) Step(w *World, _ string) {
	m.hook(w)
	// one event subscription per resource name at a time
	seen := map[string]bool{}
	for _, sub := range w.MQ.ActiveSubs() {
		if strings.HasPrefix(sub.Namespace, "event.") {
			if seen[sub.Namespace] {
				w.Fail("C09", "duplicate-event-subscription", "two subscriptions on %s are active at the same time", w.Canon(sub.Namespace))
			}
			seen[sub.Namespace] = true
		}
	}
	// a get request in flight uses the resource: its event subscription is kept
	for _, r := range w.MQ.Pending() {
		if strings.HasPrefix(r.Subject, "get.") && !r.TooLong && w.MQ.Subscribed("event."+r.Subject[4:]) == nil {
			w.Fail("C09", "get-outlives-subscription", "%s is in flight but event.%s is no longer subscribed", r.CSubject, w.Canon(r.Subject[4:]))
		}
	}
	snap := w.CacheSnaps()
	quiet := w.internalQuiet()
	pend := map[string]int{}
	if quiet {
		for _, r := range w.MQ.Pending() {
			for _, p := range []string{"access.", "call.", "auth."} {
				if strings.HasPrefix(r.Subject, p) {
					rest := r.Subject[len(p):]
					if p != "access." {
						if i := strings.LastIndexByte(rest, '.'); i >= 0 {
							rest = rest[:i]
						}
					}
					pend[rest]++
				}
			}
		}
	}
	// conn-side view: subscriptions that hold a cache use
	connUses := map[string]int{}
	if quiet {
		for _, cs := range w.ConnSnaps() {
			for _, s := range cs.Subs {
				if s.HasResource && s.State != 6 && s.State != 0 {
					name, _ := splitKey(strings.ReplaceAll(s.RID, "{cid}", cs.CID))
					connUses[name]++
				}
			}
		}
	}
	for _, e := range snap {
		name := w.Canon(e.Name)
		if e.Count < 0 {
			w.Fail("C09", "negative-count", "cache entry %s has use count %d", name, e.Count)
		}
		inQ := w.TQ != nil && w.TQ.VerifContains(e.Ref)
		popped := false
		for _, v := range w.popped {
			if v == e.Ref {
				popped = true
			}
		}
		if e.Count == 0 && !inQ && !popped {
			w.Fail("C09", "unused-not-queued", "cache entry %s has no users but is not queued for eviction", name)
		}
		if e.Count > 0 && inQ {
			w.Fail("C09", "used-but-queued", "cache entry %s has %d users but is queued for eviction", name, e.Count)
		}
		subs := 0
		loaded := false
		for _, r := range e.Resources {
			subs += len(r.Subs)
			if r.State >= 2 {
				loaded = true
			}
		}
		if loaded && (!e.HasMQSub || w.MQ.Subscribed("event."+e.Name) == nil) {
			w.Fail("C09", "cached-without-subscription", "cache entry %s holds a requested/loaded resource without an event subscription", name)
		}
		if quiet && !e.Locked && e.QueueLen == 0 {
			// a re-fetch after a system reset is an in-flight request too, from the
			// moment the reset is handled (it may still wait in the reset throttle)
			refetch := 0
			registered := map[string]bool{}
			for _, r := range e.Resources {
				registered[r.Query] = true
				if r.Resetting {
					refetch++
				}
			}
			// a query resource that lost its last subscriber while its re-fetch is
			// outstanding is unregistered at once and can no longer be seen in the
			// entry; its re-fetch still holds its use until it is answered. Such a
			// re-fetch shows as a pending get for a query that is not registered, or
			// it still waits in the reset throttle.
			hidden := 0
			for _, r := range w.MQ.Pending() {
				if r.Subject == "get."+e.Name && !registered[parseReq(r.Payload).Query] {
					hidden++
				}
			}
			for _, t := range w.S.Throttles() {
				_, _, q := t.VerifState()
				hidden += q
			}
			if d := int(e.Count) - (subs + pend[e.Name] + refetch); d < 0 || d > hidden {
				w.Fail("C09", "count-mismatch", "cache entry %s: use count %d but %d subscribers + %d requests in flight", name, e.Count, subs, pend[e.Name]+refetch)
			}
			// every subscriber the cache lists is a live connection subscription and vice versa
			getPending := false
			for _, r := range w.MQ.Pending() {
				if r.Subject == "get."+e.Name {
					getPending = true // an aliasing subscriber may sit on a loaded resource while its own get is out
				}
			}
			if loaded && !getPending && subs != connUses[e.Name] {
				// subscribers still waiting for the get answer are listed by the cache only
				waiting := 0
				for _, r := range e.Resources {
					if r.State == 2 {
						waiting += len(r.Subs)
					}
				}
				if subs-waiting != connUses[e.Name] {
					w.Fail("C09", "subscriber-mismatch", "cache entry %s lists %d loaded subscribers but connections hold %d uses", name, subs-waiting, connUses[e.Name])
				}
			}
		}
	}
	if quiet {
		// a connection believes it uses a resource the cache no longer has
		have := map[string]bool{}
		for _, e := range snap {
			have[e.Name] = true
		}
		for n, k := range connUses {
			if !have[n] && k > 0 {
				w.Fail("C09", "evicted-while-used", "connections hold %d uses of %s but the cache has no entry for it", k, w.Canon(n))
			}
		}
	}
}

var gaugeRe = regexp.MustCompile(`(?m)^(resgate_cache_resources|resgate_cache_subscriptions) (\S+)$`)

// Gauges scrapes the two cache gauges from the metrics handler.
func (w *World) Gauges() (resources, subscriptions float64, ok bool) {
	h := w.Serv.MetricsHandler()
	if h == nil {
		return 0, 0, false
	}
	rr := httptest.NewRecorder()
	h.ServeHTTP(rr, httptest.NewRequest("GET", "/metrics", nil))
	for _, m := range gaugeRe.FindAllStringSubmatch(rr.Body.String(), -1) {
		v, _ := strconv.ParseFloat(m[2], 64)
		if m[1] == "resgate_cache_resources" {
			resources = v
		} else {
			subscriptions = v
		}
		ok = true
	}
	return
}

func (m *CacheMon) End(w *World) {
	m.Step(w, "")
	snap := w.CacheSnaps()
	live := 0
	for _, c := range w.Conns {
		if !c.Disposed {
			live++
		}
	}
	if w.Sc.NoEvict {
		return
	}
	var total int64
	for _, e := range snap {
		total += e.Count
		if e.Count == 0 {
			w.Fail("C09", "not-evicted", "cache entry %s is unused at the end of the run, after all timers fired", w.Canon(e.Name))
		}
	}
	if live == 0 {
		if len(snap) != 0 {
			var names []string
			for _, e := range snap {
				names = append(names, fmt.Sprintf("%s(count=%d)", w.Canon(e.Name), e.Count))
			}
			w.Fail("C09", "leak", "all connections are gone and everything is drained but the cache still holds %v", names)
		}
		var subs []string
		for _, s := range w.MQ.ActiveSubs() {
			if s.Namespace != "system" {
				subs = append(subs, w.Canon(s.Namespace))
			}
		}
		sort.Strings(subs)
		if len(subs) > 0 {
			w.Fail("C09", "mq-subscription-leak", "all connections are gone but the gateway is still subscribed to %v", subs)
		}
	}
	if r, s, ok := w.Gauges(); ok {
		if int(r) != len(snap) || int64(s) != total {
			var del []string
			for n := range w.Svc.Deleted {
				del = append(del, n)
			}
			sort.Strings(del)
			w.Fail("C09", "gauge-mismatch", "gauges read resources=%v subscriptions=%v but the cache holds %d entries with %d uses (resources deleted in this run: %v)", r, s, len(snap), total, del)
		}
	}
}
