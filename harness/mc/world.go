package mc

import (
	"time"
	"bufio"
	"crypto/sha256"
	"encoding/hex"
	"fmt"
	"net/http"
	"net/http/httptest"
	"sort"
	"strings"
	"sync"

	"github.com/jirenius/timerqueue"
	"github.com/resgateio/resgate/logger"
	"github.com/resgateio/resgate/server"
	"github.com/resgateio/resgate/server/mq"
	"github.com/resgateio/resgate/server/rescache"
	"github.com/resgateio/resgate/server/reserr"
)

// Outcome is one possible answer to a pending request.
type Outcome struct {
	Name string
	Data func() []byte // computed at delivery time
	Err  error
}

// ClientReq is one scripted client request.
type ClientReq struct {
	Method string
	Params string // raw JSON, "" for none
	Raw    string // if set, sent verbatim instead of a request object
	ID     int    // request id to use instead of the next sequential one (0 = sequential)
	Sync   bool   // only enabled once all earlier requests of the connection are answered
	Phase  int    // default order: lower phases first (across connections and threads)
	When   func(w *World) bool
}

// HTTPReq is a scripted HTTP request.
type HTTPReq struct {
	Method string
	URL    string
	Body   string
	Header map[string]string
}

// ConnSpec describes one client connection of a scenario.
type ConnSpec struct {
	Version string // "" = no version handshake (legacy 1.1.1)
	Script  []ClientReq
}

// Op is one scripted environment operation (service event, HTTP request, …).
type Op struct {
	Name  string
	Do    func(w *World)
	When  func(w *World) bool
	Phase int
}

// Thread is a sequence of Ops executed in order; different threads are
// interleaved by the explorer.
type Thread struct {
	Name string
	Ops  []Op
}

// Monitor observes an execution.
type Monitor interface {
	// Step is called after every action, once the system has settled.
	Step(w *World, action string)
	// End is called at full quiescence.
	End(w *World)
}

// Scenario is a closed system: configuration, peers and their scripts.
type Scenario struct {
	// RevSubs: the subscriber fan-out loops of a cached resource run in
	// reverse registration order (default: registration order).
	RevSubs bool
	Name        string
	Props       []string
	Cfg         func(c *server.Config)
	Conns       []ConnSpec
	Threads     []Thread
	Init        func(w *World)
	Menu        func(w *World, r *Req) []Outcome // nil: truthful answer only
	Disconnects bool                             // offer disconnect of each connection as a deviation
	NoEvict     bool                             // do not offer eviction timer actions
	Monitors    func(w *World) []Monitor
	MaxPoints   int
	Bound       map[string]int // tier -> deviation bound (-1 = unbounded)
	// Slow marks requests that a slow service answers last: in the default
	// schedule their answers come after every scripted action (so that the
	// "still loading" windows are reached without deviations).
	Slow func(r *Req) bool
	// LazyConns changes the default schedule: connection workers run only
	// when nothing else (cache workers, answers, scripted actions) is
	// enabled, i.e. clients' queues are served last.
	LazyConns bool
}

// Violation is a property violation found in one execution.
type Violation struct {
	Prop string
	Kind string // short stable classifier used by known-finding predicates
	Msg  string
	At   int
}

// Conn is a client connection of the world.
type Conn struct {
	Idx      int
	Label    string
	VC       *server.VerifConn
	CID      string
	Frames   [][]byte
	fed      int
	Client   *RefClient
	next     int // next script index
	nextID   int
	Disposed bool // disconnect requested
	Spec     *ConnSpec
	HTTP     *HTTPCall
}

// HTTPCall is an in-flight or completed HTTP request.
type HTTPCall struct {
	Req   HTTPReq
	Rec   *httptest.ResponseRecorder
	CID   string
	done  chan struct{}
	Done  bool
	Label string
	Start int // world time at which the request was made
}

// Quiet reports whether no worker closure or captured go statement is pending.
func (w *World) Quiet() bool { return w.internalQuiet() }

// Remaining is the number of scripted requests not sent yet.
func (c *Conn) Remaining() int { return len(c.Spec.Script) - c.next }

// Action is one enabled choice.
type Action struct {
	Name string
	do   func()
}

// World is one execution of a scenario against a fresh Service.
type World struct {
	Sc    *Scenario
	S     *Sched
	MQ    *MQ
	Serv  *server.Service
	Cache *rescache.Cache
	Log   *logger.MemLogger
	Conns []*Conn
	HTTPs []*HTTPCall
	Svc   *SvcModel
	TQ    *timerqueue.Queue

	mu       sync.Mutex
	cids     map[string]string // cid -> label
	cidList  []string
	tmpConns int
	frameBuf []pendingFrame

	thrNext []int
	popped  []interface{}
	time    int
	Trace   []string
	Viol    []Violation
	mons    []Monitor
	Hung    bool
	resGen  map[string]int
	resName map[interface{}]string
	Data    map[string]interface{} // scratch for scenarios/monitors
	closed  bool
	Free    bool // free-running (socket tier)
	// Unsent lists rids that were reset from sent to unsent in this execution.
	Unsent    map[string]bool
	sentSeen   map[string]bool
	prevDataAt map[string]int
	prevState map[string]int

	snapT     int
	connSnap  []server.VerifConnSnap
	cacheSnap []rescache.VerifEntry
}

type pendingFrame struct {
	cid  string
	data []byte
}

func init() {
	timerqueue.VerifManual = true
}

var tqMu sync.Mutex
var lastTQ []*timerqueue.Queue

// Tainted is set once a world hung: goroutines of that world may still call
// the process-wide hooks, so the process must not be used for further work.
var Tainted bool

// current is the world that owns the process-wide hooks. Worlds must not
// overlap: a new one closes its predecessor first.
var current *World

// NewWorld builds a fresh gateway for the scenario.
func NewWorld(sc *Scenario) *World { return newWorld(sc, false) }

func newWorld(sc *Scenario, free bool) *World {
	if current != nil && !current.closed {
		current.Close()
	}
	w := &World{Sc: sc, cids: map[string]string{}, resGen: map[string]int{}, resName: map[interface{}]string{}, Data: map[string]interface{}{}}
	current = w
	rescache.VerifResetOrder()
	rescache.VerifSubsReverse = sc.RevSubs
	w.S = NewSched()
	if free {
		w.S.Detach()
		w.Free = true
	}
	w.S.onFrame = w.onFrame
	w.S.onHTTPWait = w.onHTTPWait
	w.MQ = NewMQ(w.Canon, func() int { return w.time })
	w.Svc = newSvc(w)

	cfg := server.Config{NoHTTP: true, MetricsPort: 8090}
	cfg.SetDefault()
	cfg.NoUnsubscribeDelay = false
	if sc.Cfg != nil {
		sc.Cfg(&cfg)
	}
	tqMu.Lock()
	lastTQ = nil
	timerqueue.VerifOnNew = func(q *timerqueue.Queue) { lastTQ = append(lastTQ, q) }
	serv, err := server.NewService(w.MQ, cfg)
	if err != nil {
		tqMu.Unlock()
		panic(err)
	}
	w.Log = logger.NewMemLogger(false, false)
	serv.SetLogger(w.Log)
	if err := serv.Start(); err != nil {
		tqMu.Unlock()
		panic(err)
	}
	timerqueue.VerifOnNew = nil
	if len(lastTQ) > 0 {
		w.TQ = lastTQ[len(lastTQ)-1]
	}
	tqMu.Unlock()
	w.Serv = serv
	w.Cache = serv.VerifCache()
	w.Cache.VerifAddWorkers(24)

	for i := range sc.Conns {
		w.addConn(&sc.Conns[i])
	}
	if sc.Init != nil {
		sc.Init(w)
	}
	w.thrNext = make([]int, len(sc.Threads))
	if sc.Monitors != nil {
		w.mons = sc.Monitors(w)
	}
	if !w.S.Settle() {
		w.Hung = true
	}
	return w
}

func (w *World) addConn(spec *ConnSpec) *Conn {
	r, _ := http.NewRequest("GET", "ws://example.org/", nil)
	vc := w.Serv.VerifNewConn(r)
	if vc == nil {
		return nil
	}
	c := &Conn{Idx: len(w.Conns), VC: vc, CID: vc.CID(), Client: NewRefClient(), Spec: spec, nextID: 1}
	c.Label = fmt.Sprintf("c%d", c.Idx+1)
	w.mu.Lock()
	w.cids[c.CID] = c.Label
	w.cidList = append(w.cidList, c.CID)
	w.mu.Unlock()
	w.Conns = append(w.Conns, c)
	return c
}

// NewFreeWorld builds a gateway whose workers run freely (hooks only count):
// the socket tier. Every request is answered at once, on its own goroutine,
// by answer (nil = the truthful service answer). Stimuli must be strictly
// sequential: call Settle after each.
func NewFreeWorld(sc *Scenario, answer func(w *World, r *Req) Outcome) *World {
	free := *sc
	free.Conns = nil
	w := newWorld(&free, true)
	w.MQ.mu.Lock()
	w.MQ.onReq = append(w.MQ.onReq, func(r *Req) {
		w.S.Busy(1)
		go func() {
			defer w.S.Busy(-1)
			var o Outcome
			if r.TooLong {
				o = Outcome{Name: "subjectTooLong", Err: mq.ErrSubjectTooLong}
			} else if answer != nil {
				o = answer(w, r)
			} else {
				o = w.OK(r)
			}
			if o.Name == "hold" {
				return
			}
			var d []byte
			if o.Data != nil {
				d = o.Data()
			}
			w.MQ.Answer(r, o.Name, d, o.Err)
		}()
	})
	w.MQ.mu.Unlock()
	return w
}

// Settle waits until the gateway is idle.
func (w *World) Settle() bool {
	if !w.S.Settle() {
		w.Hung = true
		return false
	}
	w.pollHTTP()
	w.flushFrames()
	return true
}

// WaitNoConns waits (free-running tier) until the connection table is empty
// and the gateway is idle: teardown of socket connections is asynchronous.
func (w *World) WaitNoConns(timeout time.Duration) bool {
	dl := time.Now().Add(timeout)
	for {
		if !w.Settle() {
			return false
		}
		if len(w.Serv.VerifSnapshot()) == 0 && w.S.settledNow() {
			return true
		}
		if time.Now().After(dl) {
			return false
		}
		time.Sleep(200 * time.Microsecond)
	}
}

// label returns the canonical label of a cid, allocating one for temporary
// (HTTP) connections on first sight.
func (w *World) label(cid string) string {
	w.mu.Lock()
	defer w.mu.Unlock()
	l, ok := w.cids[cid]
	if !ok {
		w.tmpConns++
		l = fmt.Sprintf("h%d", w.tmpConns)
		w.cids[cid] = l
		w.cidList = append(w.cidList, cid)
	}
	return l
}

// Canon replaces every known connection id by its label.
func (w *World) Canon(s string) string {
	w.mu.Lock()
	defer w.mu.Unlock()
	for _, cid := range w.cidList {
		if strings.Contains(s, cid) {
			s = strings.ReplaceAll(s, cid, "<"+w.cids[cid]+">")
		}
	}
	return s
}

// CIDs returns all connection ids seen so far.
func (w *World) CIDs() []string {
	w.mu.Lock()
	defer w.mu.Unlock()
	return append([]string(nil), w.cidList...)
}

func (w *World) onFrame(cid string, data []byte) {
	w.mu.Lock()
	w.frameBuf = append(w.frameBuf, pendingFrame{cid, data})
	w.mu.Unlock()
}

func (w *World) onHTTPWait(cid string) {
	w.label(cid)
	w.mu.Lock()
	for _, h := range w.HTTPs {
		if h.CID == "" && !h.Done {
			h.CID = cid
			break
		}
	}
	w.mu.Unlock()
	w.S.HTTPStarting(-1)
}

// ConnSnaps returns the (per step memoised) snapshot of all connections.
func (w *World) ConnSnaps() []server.VerifConnSnap {
	if w.snapT != w.time || w.connSnap == nil {
		w.snapT, w.connSnap, w.cacheSnap = w.time, nil, nil
	}
	if w.connSnap == nil {
		w.connSnap = w.Serv.VerifSnapshot()
		if w.connSnap == nil {
			w.connSnap = []server.VerifConnSnap{}
		}
	}
	return w.connSnap
}

// CacheSnaps returns the (per step memoised) snapshot of the cache.
func (w *World) CacheSnaps() []rescache.VerifEntry {
	if w.snapT != w.time {
		w.snapT, w.connSnap, w.cacheSnap = w.time, nil, nil
	}
	if w.cacheSnap == nil {
		w.cacheSnap = w.Cache.VerifSnapshot()
		if w.cacheSnap == nil {
			w.cacheSnap = []rescache.VerifEntry{}
		}
	}
	return w.cacheSnap
}

// Time is the number of actions executed so far.
func (w *World) Time() int { return w.time }

// Fail records a violation.
func (w *World) Fail(prop, kind, format string, a ...interface{}) {
	w.mu.Lock()
	defer w.mu.Unlock()
	msg := fmt.Sprintf(format, a...)
	// Known-finding context: the violation concerns a resource for which the
	// service has sent a delete event earlier in this execution.
	tagged := false
	for name := range w.Svc.Deleted {
		if strings.Contains(msg, name) {
			kind = "after-delete:" + kind
			tagged = true
			break
		}
	}
	// ... or a resource that the gateway reset from sent to unsent (its last
	// sent parent went away while a loading parent still references it)
	if !tagged {
		for rid := range w.Unsent {
			if strings.Contains(msg, rid) {
				kind = "after-unsend:" + kind
				break
			}
		}
	}
	w.Viol = append(w.Viol, Violation{Prop: prop, Kind: kind, Msg: msg, At: w.time})
}

// flushFrames feeds captured frames to the reference clients.
func (w *World) flushFrames() {
	w.mu.Lock()
	buf := w.frameBuf
	w.frameBuf = nil
	w.mu.Unlock()
	for _, f := range buf {
		for _, c := range w.Conns {
			if c.CID == f.cid {
				c.Frames = append(c.Frames, f.data)
				c.Client.Frame(f.data, w.time)
			}
		}
	}
}

func (w *World) actorName(a *actor) string {
	if a.isConn {
		return w.label(a.raw)
	}
	if n, ok := w.resName[a.ref]; ok {
		return n
	}
	base := "r:" + w.Canon(a.raw)
	w.resGen[base]++
	n := base
	if g := w.resGen[base]; g > 1 {
		n = fmt.Sprintf("%s'%d", base, g)
	}
	w.resName[a.ref] = n
	return n
}

// outcomes returns the menu for a pending request, default first.
func (w *World) outcomes(r *Req) []Outcome {
	if r.TooLong {
		return []Outcome{{Name: "subjectTooLong", Err: mq.ErrSubjectTooLong}}
	}
	if w.Sc.Menu != nil {
		if o := w.Sc.Menu(w, r); len(o) > 0 {
			return o
		}
	}
	return []Outcome{w.OK(r)}
}

// OK is the truthful answer of the service model.
func (w *World) OK(r *Req) Outcome {
	return Outcome{Name: "ok", Data: func() []byte { return w.Svc.DefaultAnswer(r) }}
}

// Timeout is the adapter's timeout completion.
func Timeout() Outcome { return Outcome{Name: "timeout", Err: mq.ErrRequestTimeout} }

// NoResponders is the adapter's no-responders completion.
func NoResponders() Outcome { return Outcome{Name: "noresp", Err: mq.ErrNoResponders} }

// Raw is a verbatim response.
func Raw(name, data string) Outcome {
	return Outcome{Name: name, Data: func() []byte { return []byte(data) }}
}

// ResErr is a RES error response.
func ResErr(code string) Outcome {
	return Outcome{Name: code, Data: func() []byte { return ErrJSON(code, "Error "+code) }}
}

var _ = reserr.ErrTimeout

// Enabled returns the enabled actions in canonical order (default first).
func (w *World) Enabled() []Action {
	var out []Action
	// 1. internal: runnable actors by name, then tasks
	run := w.S.Runnable()
	type na struct {
		n string
		a *actor
	}
	var nas []na
	for _, a := range run {
		nas = append(nas, na{w.actorName(a), a})
	}
	sort.Slice(nas, func(i, j int) bool { return nas[i].n < nas[j].n })
	var lazy []Action
	for _, x := range nas {
		a := x.a
		act := Action{"step:" + x.n, func() {
			if !w.S.Step(a) {
				w.Hung = true
			}
		}}
		if w.Sc.LazyConns && a.isConn {
			lazy = append(lazy, act)
			continue
		}
		out = append(out, act)
	}
	for i, t := range w.S.Tasks() {
		t := t
		out = append(out, Action{fmt.Sprintf("task:%d", i), func() {
			if !w.S.RunTask(t) {
				w.Hung = true
			}
		}})
	}
	// 2. answers
	pend := w.MQ.Pending()
	var alts []Action
	var slow []Action
	for _, r := range pend {
		r := r
		isSlow := w.Sc.Slow != nil && w.Sc.Slow(r)
		for i, o := range w.outcomes(r) {
			o := o
			a := Action{"ans:" + r.Name + ":" + o.Name, func() {
				var d []byte
				if o.Data != nil {
					d = o.Data()
				}
				w.MQ.Answer(r, o.Name, d, o.Err)
			}}
			if isSlow {
				slow = append(slow, a)
			} else if i == 0 {
				out = append(out, a)
			} else {
				alts = append(alts, a)
			}
		}
	}
	out = append(out, alts...)
	// 3+4. scripted environment actions: client requests and thread ops,
	// ordered by phase (connections before threads within a phase)
	type pa struct {
		phase int
		a     Action
	}
	var env []pa
	for _, c := range w.Conns {
		c := c
		if c.Disposed || c.next >= len(c.Spec.Script) {
			continue
		}
		rq := c.Spec.Script[c.next]
		if rq.Sync && len(c.Client.Pending) > 0 {
			continue
		}
		if rq.When != nil && !rq.When(w) {
			continue
		}
		env = append(env, pa{rq.Phase, Action{fmt.Sprintf("req:%s:%d:%s", c.Label, c.next, rq.Method), func() {
			c.next++
			w.send(c, rq)
		}}})
	}
	for ti := range w.Sc.Threads {
		ti := ti
		th := &w.Sc.Threads[ti]
		n := w.thrNext[ti]
		if n >= len(th.Ops) {
			continue
		}
		op := th.Ops[n]
		if op.When != nil && !op.When(w) {
			continue
		}
		env = append(env, pa{op.Phase, Action{fmt.Sprintf("op:%s:%d:%s", th.Name, n, op.Name), func() {
			w.thrNext[ti]++
			op.Do(w)
		}}})
	}
	sort.SliceStable(env, func(i, j int) bool { return env[i].phase < env[j].phase })
	for _, e := range env {
		out = append(out, e.a)
	}
	out = append(out, lazy...)
	out = append(out, slow...)
	// 5. timers
	if !w.Sc.NoEvict && w.TQ != nil {
		if el := w.TQ.VerifElems(); len(el) > 0 {
			v := el[0]
			out = append(out, Action{"evict-pop:" + w.Canon(rescache.VerifEntryName(v)), func() {
				if w.TQ.VerifPop(v) {
					w.popped = append(w.popped, v)
				}
			}})
		}
		for i, v := range w.popped {
			i, v := i, v
			// The real worker holds the entry's mutex for a whole batch of queued
			// closures, and the eviction callback waits for that mutex. The Yield
			// hook has to release it while the actor is parked, so the callback is
			// offered only when the entry's actor is not in (or about to run) a
			// batch: a closure never runs after the eviction that, in the real code,
			// would either wait for it or discard it.
			busy := false
			for _, a := range run {
				if !a.isConn && a.raw == rescache.VerifEntryName(v) {
					busy = true
				}
			}
			if busy {
				continue
			}
			out = append(out, Action{"evict-fire:" + w.Canon(rescache.VerifEntryName(v)), func() {
				w.popped = append(w.popped[:i:i], w.popped[i+1:]...)
				w.TQ.VerifCall(v)
			}})
		}
	}
	// 6. disconnects
	if w.Sc.Disconnects {
		for _, c := range w.Conns {
			c := c
			if c.Disposed {
				continue
			}
			out = append(out, Action{"disconnect:" + c.Label, func() { w.Disconnect(c) }})
		}
	}
	return out
}

// Disconnect closes a client connection (as wsConn.listen does at EOF).
func (w *World) Disconnect(c *Conn) {
	if c.Disposed {
		return
	}
	c.Disposed = true
	c.Client.Closed = true
	c.VC.DisposeAsync()
}

// SendRequest sends a client request on the connection (Mode M actions).
func (w *World) SendRequest(c *Conn, method, params string) {
	w.send(c, ClientReq{Method: method, Params: params})
}

func (w *World) send(c *Conn, rq ClientReq) {
	if rq.Raw != "" {
		c.VC.Inject([]byte(rq.Raw))
		return
	}
	// {c1}, {c2}, ... in a method stand for the literal id of that connection
	for i, o := range w.Conns {
		rq.Method = strings.ReplaceAll(rq.Method, fmt.Sprintf("{c%d}", i+1), o.CID)
	}
	id := c.nextID
	c.nextID++
	if rq.ID != 0 {
		id = rq.ID
	}
	c.Client.Sent(id, rq.Method, rq.Params, w.time)
	var frame string
	if rq.Params != "" {
		frame = fmt.Sprintf(`{"id":%d,"method":%q,"params":%s}`, id, rq.Method, rq.Params)
	} else {
		frame = fmt.Sprintf(`{"id":%d,"method":%q}`, id, rq.Method)
	}
	c.VC.Inject([]byte(frame))
}

// HTTP starts an HTTP request against Service.ServeHTTP on its own goroutine.
func (w *World) HTTP(rq HTTPReq) *HTTPCall {
	var body *strings.Reader
	body = strings.NewReader(rq.Body)
	req, err := http.NewRequest(rq.Method, rq.URL, body)
	if err != nil {
		panic(err)
	}
	for k, v := range rq.Header {
		req.Header.Set(k, v)
	}
	return w.serve(rq, req)
}

func (w *World) serve(rq HTTPReq, req *http.Request) *HTTPCall {
	h := &HTTPCall{Req: rq, Rec: httptest.NewRecorder(), done: make(chan struct{}), Start: w.time}
	h.Label = fmt.Sprintf("http%d", len(w.HTTPs)+1)
	w.mu.Lock()
	w.HTTPs = append(w.HTTPs, h)
	w.mu.Unlock()
	w.S.HTTPStarting(1)
	go func() {
		w.Serv.ServeHTTP(h.Rec, req)
		w.mu.Lock()
		reached := h.CID != ""
		w.mu.Unlock()
		if !reached {
			// returned without ever waiting for a temporary connection
			w.mu.Lock()
			h.CID = "-"
			w.mu.Unlock()
			w.S.HTTPStarting(-1)
		}
		close(h.done)
	}()
	return h
}

// Drain takes default actions until nothing is enabled (or max actions).
// It returns false if the limit was hit or a closure hung.
func (w *World) Drain(max int) bool {
	if !w.S.Settle() {
		w.Hung = true
	}
	w.pollHTTP()
	w.flushFrames()
	for i := 0; i < max; i++ {
		if w.Hung {
			return false
		}
		en := w.Enabled()
		if len(en) == 0 {
			return true
		}
		w.Do(en[0])
	}
	return false
}

// Inject sends a raw client frame on a connection and registers nothing.
func (w *World) Inject(c *Conn, frame []byte) {
	w.time++
	w.Trace = append(w.Trace, "inject")
	c.VC.Inject(frame)
	if !w.S.Settle() {
		w.Hung = true
	}
	w.flushFrames()
}

// HTTPRaw parses a raw request with http.ReadRequest (like the real front
// door) and serves it. It returns nil if the standard library rejects it.
func (w *World) HTTPRaw(raw string) *HTTPCall {
	req, err := http.ReadRequest(bufio.NewReader(strings.NewReader(raw)))
	if err != nil {
		return nil
	}
	return w.serve(HTTPReq{Method: req.Method, URL: req.RequestURI}, req)
}

// pollHTTP completes HTTP calls whose temporary connection is gone.
func (w *World) pollHTTP() {
	for _, h := range w.HTTPs {
		if h.Done {
			continue
		}
		w.mu.Lock()
		cid := h.CID
		w.mu.Unlock()
		if cid == "" {
			continue
		}
		if cid == "-" || !w.Serv.VerifHasConn(cid) {
			<-h.done
			h.Done = true
		}
	}
}

// Do executes an action, settles, and runs the step monitors.
func (w *World) Do(a Action) {
	w.time++
	w.Trace = append(w.Trace, a.Name)
	a.do()
	if !w.S.Settle() {
		w.Hung = true
	}
	w.pollHTTP()
	w.flushFrames()
	if len(w.mons) > 0 {
		w.trackUnsend()
	}
	for _, m := range w.mons {
		m.Step(w, a.Name)
	}
}

// trackUnsend records the rids whose subscription went from sent back to
// ready while staying referenced (Subscription.Unsend): either the state
// change is seen between two steps, or - when a closure sends the resource
// and resets it in one go, as the get path does for a resource that a parent
// references - the client was handed the data of a subscription object that
// exists before and after the step and is (again) merely ready.
func (w *World) trackUnsend() {
	cur := map[string]int{}
	sent := map[string]bool{}
	for _, cs := range w.ConnSnaps() {
		var cl *RefClient
		for _, c := range w.Conns {
			if c.CID == cs.CID {
				cl = c.Client
			}
		}
		for _, s := range cs.Subs {
			k := cs.CID + " " + s.RID
			cur[k] = s.State
			_, existed := w.prevState[k]
			if existed && w.sentSeen[k] {
				sent[k] = true
			}
			if s.State == 5 {
				sent[k] = true
			}
			if cl != nil && existed {
				if at, ok := cl.DataAt[s.RID]; ok && at > w.prevDataAt[k] {
					sent[k] = true
				}
			}
			if cl != nil {
				if at, ok := cl.DataAt[s.RID]; ok {
					if w.prevDataAt == nil {
						w.prevDataAt = map[string]int{}
					}
					w.prevDataAt[k] = at
				}
			}
			if sent[k] && s.State == 3 && s.Err == "" {
				w.mu.Lock()
				if w.Unsent == nil {
					w.Unsent = map[string]bool{}
				}
				w.Unsent[s.RID] = true
				w.mu.Unlock()
			}
		}
	}
	w.prevState = cur
	w.sentSeen = sent
}

// End runs the end-of-run monitors (call only at full quiescence).
func (w *World) End() {
	for _, m := range w.mons {
		m.End(w)
	}
}

// Close tears the gateway down so that its goroutines exit.
func (w *World) Close() {
	if w.closed {
		return
	}
	w.closed = true
	if w.Hung {
		Tainted = true
		return // parked goroutines are leaked; the process must be recycled
	}
	w.S.Release()
	for _, c := range w.Conns {
		if !c.Disposed {
			c.Disposed = true
			c.VC.DisposeAsync()
		}
	}
	w.S.Settle()
	w.Cache.Stop()
}

// Digest is a canonical hash of everything observable in the execution.
func (w *World) Digest() string {
	h := sha256.New()
	for _, c := range w.Conns {
		fmt.Fprintf(h, "conn %s\n", c.Label)
		// frames grouped per request id / event rid keep map-order effects out
		for _, f := range c.Frames {
			h.Write([]byte(CanonJSON([]byte(w.Canon(string(f))))))
			h.Write([]byte{'\n'})
		}
	}
	for _, hc := range w.HTTPs {
		fmt.Fprintf(h, "http %d %s\n", hc.Rec.Code, w.Canon(hc.Rec.Body.String()))
	}
	recs := w.MQ.Log()
	// requests issued within one action may come in map order: sort per time
	sort.SliceStable(recs, func(i, j int) bool {
		if recs[i].Time != recs[j].Time {
			return recs[i].Time < recs[j].Time
		}
		return false
	})
	byTime := map[int][]string{}
	var times []int
	for _, r := range recs {
		if _, ok := byTime[r.Time]; !ok {
			times = append(times, r.Time)
		}
		byTime[r.Time] = append(byTime[r.Time], r.Kind+" "+r.Subject+" "+r.Payload)
	}
	for _, t := range times {
		l := byTime[t]
		sort.Strings(l)
		for _, s := range l {
			h.Write([]byte(s))
			h.Write([]byte{'\n'})
		}
	}
	return hex.EncodeToString(h.Sum(nil))[:16]
}
