package mc

import (
	"encoding/json"
	"fmt"
	"sort"
	"strings"
)

// ---------------------------------------------------------------------------
// ClientMon: protocol applicability (C02) and exactly-one-response (C07),
// as judged by the reference client of each connection.
// ---------------------------------------------------------------------------

type ClientMon struct {
	seen    []int
	seenRsp []int
	// orphaned lists the requests lost to the known defect (see below)
	orphaned map[*PendingReq]bool
	// consumed: connection+rid for which a successful unsubscribe took away
	// counts of subscribe/get requests that were still outstanding
	consumed map[string]int // -> SentAt of the latest such unsubscribe
	prev     map[string]subCBs
	// overdrawn: RefClient.Overdrawn as last seen; viaResponse: the consumed
	// count belonged to the resource of a call/auth/new resource response
	overdrawn   map[string]int
	viaResponse map[string]bool
}

type subCBs struct{ ready, access int }

// Step feeds the reference client's findings into the verdicts and keeps the
// context for the one known way of losing a response: the gateway counts a
// direct subscription when the subscribe/get request arrives, so an
// unsubscribe sent while such requests are outstanding can take their counts
// away. The subscription object is then disposed
//   (A) by that very unsubscribe request, dropping the waiting continuations, or
//   (B) later, when continuations that end in an error give back their counts
//       one by one: the continuations still waiting for the access verdict
//       are handed a disposed subscription and wait on it for ever.
// A request is put down to the known defect only in these two situations; a
// response lost in any other way (for instance continuations that already
// wait for the load being dropped by a disposal that is not the client's own
// unsubscribe) stays a violation.
func (m *ClientMon) Step(w *World, _ string) {
	if m.seen == nil {
		m.seen = make([]int, len(w.Conns))
	}
	if m.seenRsp == nil {
		m.seenRsp = make([]int, len(w.Conns))
		m.orphaned = map[*PendingReq]bool{}
		m.consumed = map[string]int{}
		m.prev = map[string]subCBs{}
	}
	cur := map[string]subCBs{}
	for _, cs := range w.ConnSnaps() {
		for _, sub := range cs.Subs {
			// the references through which a resource has been sent are among the
			// references to it
			if sub.State != 0 && (sub.IndirectSent < 0 || sub.IndirectSent > sub.Indirect) {
				w.Fail("C02", "sent-count-out-of-range", "%s: subscription %s counts %d sent references out of %d references", w.label(cs.CID), sub.RID, sub.IndirectSent, sub.Indirect)
			}
			if sub.State != 0 {
				cur[cs.CID+" "+sub.RID] = subCBs{sub.ReadyCBs, sub.AccessCBs}
			}
		}
	}
	for i, c := range w.Conns {
		unsubNow := map[string]*PendingReq{}
		for _, r := range c.Client.Resp[m.seenRsp[i]:] {
			if r.Req == nil || r.Req.Action != "unsubscribe" || r.IsErr {
				continue
			}
			unsubNow[r.Req.RID] = r.Req
			for _, p := range c.Client.Pending {
				if p.RID == r.Req.RID && p.SentAt < r.Req.SentAt && (p.Action == "subscribe" || p.Action == "get" || p.Action == "new") {
					m.consumed[c.CID+" "+p.RID] = r.Req.SentAt
				}
				// the count taken for the resource of a call/auth/new resource
				// response that is still being prepared: the unsubscribe released
				// more than the client was ever told about
				if p.SentAt < r.Req.SentAt && (p.Action == "call" || p.Action == "auth" || p.Action == "new") && c.Client.Overdrawn[r.Req.RID] > m.overdrawn[c.CID+" "+r.Req.RID] {
					m.consumed[c.CID+" "+r.Req.RID] = r.Req.SentAt
					if m.viaResponse == nil {
						m.viaResponse = map[string]bool{}
					}
					m.viaResponse[c.CID+" "+r.Req.RID] = true
				}
			}
			if m.overdrawn == nil {
				m.overdrawn = map[string]int{}
			}
			m.overdrawn[c.CID+" "+r.Req.RID] = c.Client.Overdrawn[r.Req.RID]
		}
		m.seenRsp[i] = len(c.Client.Resp)
		for key, before := range m.prev {
			if !strings.HasPrefix(key, c.CID+" ") {
				continue
			}
			if _, still := cur[key]; still {
				continue
			}
			rid := key[len(c.CID)+1:]
			at, overlapped := m.consumed[key]
			if !overlapped {
				continue
			}
			_, byClient := unsubNow[rid]
			if byClient || (before.access > 0 && before.ready == 0) {
				for _, p := range c.Client.Pending {
					if p.RID == rid && p.SentAt < w.time && (byClient && p.SentAt < at || !byClient) {
						m.orphaned[p] = true
					}
					if m.viaResponse[key] && p.SentAt < at && (p.Action == "call" || p.Action == "auth" || p.Action == "new") {
						m.orphaned[p] = true
					}
				}
			}
		}
	}
	m.prev = cur
	for i, c := range w.Conns {
		is := c.Client.Issues
		for _, x := range is[m.seen[i]:] {
			kind := x.Msg
			if j := strings.IndexAny(kind, ":"); j > 0 {
				kind = kind[:j]
			}
			w.Fail(x.Prop, classify(x.Msg), "%s frame %d: %s", c.Label, x.Frame, x.Msg)
		}
		m.seen[i] = len(is)
	}
}

// classify maps an issue message to a short stable kind.
func classify(msg string) string {
	switch {
	case strings.Contains(msg, "neither data nor an error"):
		return "dangling-reference"
	case strings.Contains(msg, "only received through a get response"):
		return "event-after-get"
	case strings.Contains(msg, "does not hold"):
		return "event-for-unheld"
	case strings.Contains(msg, "after its delete event"):
		return "event-after-delete"
	case strings.Contains(msg, "outside"):
		return "index-out-of-range"
	case strings.Contains(msg, "second response"):
		return "second-response"
	case strings.Contains(msg, "unknown request id"):
		return "unknown-id"
	case strings.Contains(msg, "without direct subscription"):
		return "unsubscribe-event-without-subscription"
	case strings.Contains(msg, "does not contain the resource"):
		return "resource-missing-in-response"
	case strings.Contains(msg, "event on"):
		return "wrong-event-kind"
	}
	return "protocol"
}

func (m *ClientMon) End(w *World) {
	m.Step(w, "")
	for _, c := range w.Conns {
		if c.Disposed {
			continue
		}
		ids := make([]int, 0, len(c.Client.Pending))
		for id := range c.Client.Pending {
			ids = append(ids, id)
		}
		sort.Ints(ids)
		for _, id := range ids {
			p := c.Client.Pending[id]
			kind := "unanswered:" + p.Action
			// context for the known-finding predicate: an unsubscribe of the
			// same rid, sent while this request was outstanding, made the
			// gateway dispose the subscription the request was waiting on
			if m.orphaned[p] {
				kind = "unanswered-after-unsubscribe:" + p.Action
			}
			w.Fail("C07", kind, "%s: request id %d (%s) never received a response although the system is quiescent", c.Label, id, p.Method)
		}
	}
}

// ---------------------------------------------------------------------------
// ConvMon: convergence at quiescence (C01).
// ---------------------------------------------------------------------------

type ConvMon struct {
	// Skip lists resource keys that are not expected to converge.
	Skip map[string]bool
}

func (m *ConvMon) Step(*World, string) {}

// ridKey maps a client rid to the service resource key of connection c.
func ridKey(w *World, c *Conn, rid string) string {
	rid = strings.ReplaceAll(rid, "{cid}", c.CID)
	name, q := splitKey(rid)
	k, _ := w.Svc.resKey(name, q)
	return k
}

func (m *ConvMon) End(w *World) {
	for _, c := range w.Conns {
		if c.Disposed {
			continue
		}
		rids := make([]string, 0, len(c.Client.Store))
		for rid := range c.Client.Store {
			rids = append(rids, rid)
		}
		sort.Strings(rids)
		conf := c.Client.Confirmed()
		for _, rid := range rids {
			cr := c.Client.Store[rid]
			if cr.Kind == "error" || cr.Deleted || !conf[rid] {
				continue
			}
			key := ridKey(w, c, rid)
			sr := w.Svc.Res[key]
			if sr == nil || sr.Gone || sr.Kind == "error" || m.Skip[key] {
				continue
			}
			if sr.Dirty || sr.NoConv {
				continue // scenario left a silent mutation unannounced
			}
			want, got := "", ""
			if sr.Kind == "model" {
				wm := map[string]string{}
				for k, v := range sr.M {
					wm[k] = CanonJSON([]byte(WireValue(v, c.Client.Proto)))
				}
				gm := map[string]string{}
				for k, v := range cr.M {
					gm[k] = CanonJSON(v)
				}
				want, got = jsonModel(wm), jsonModel(gm)
				if cr.Kind != "model" {
					got = cr.Kind
				}
			} else {
				var wl, gl []string
				for _, v := range sr.C {
					wl = append(wl, CanonJSON([]byte(WireValue(v, c.Client.Proto))))
				}
				for _, v := range cr.C {
					gl = append(gl, CanonJSON(v))
				}
				want, got = jsonColl(wl), jsonColl(gl)
				if cr.Kind != "collection" {
					got = cr.Kind
				}
			}
			if want != got {
				w.Fail("C01", "client-diverged", "%s: client copy of %s is %s but the service announced %s", c.Label, rid, got, want)
			}
		}
	}
	// cached copies
	for _, e := range w.CacheSnaps() {
		for _, r := range e.Resources {
			if r.State < 3 || len(r.Subs) == 0 {
				continue
			}
			key := e.Name
			if r.Query != "" {
				key += "?" + r.Query
			}
			sr := w.Svc.Res[key]
			if sr == nil || sr.Gone || sr.Kind == "error" || sr.Dirty || sr.NoConv || m.Skip[key] {
				continue
			}
			want := ""
			if sr.Kind == "model" {
				want = CanonJSON([]byte(jsonModel(sr.M)))
			} else {
				want = CanonJSON([]byte(jsonColl(sr.C)))
			}
			if got := CanonJSON([]byte(r.Value)); got != want {
				w.Fail("C01", "cache-diverged", "cached %s is %s but the service announced %s", w.Canon(key), got, want)
			}
		}
	}
}

// ---------------------------------------------------------------------------
// SeqMon: per-resource event order, no gaps, no duplicates (C03).
//
// Stream discipline of the C03 scenarios: the service emits, per resource,
// custom{seq:k} (position 2k-1) and a state event that writes k (model:
// change{n:k}; collection: add k at the end) (position 2k), strictly
// alternating. A snapshot containing n=s therefore stands for position 2s,
// or 2s+1 if custom s+1 was already processed when it was taken. While a
// client holds the resource, delivered positions must be consecutive,
// starting at 2s+1 or 2s+2; at quiescence a client still holding it must
// have reached the last emitted position.
// ---------------------------------------------------------------------------

type SeqMon struct {
	fed []int
	per map[string]*seqState
	// Relaxed allows gaps over state events (reset / query windows).
	Relaxed bool
}

type seqState struct {
	res   *CRes
	pos   int  // last position known to the client
	first bool // no event delivered yet since hand-over
	other int  // index into Svc.Events up to which non-stream events are matched
	odd   int  // Relaxed: position of the last custom event delivered (0: none yet)
	even  int  // Relaxed: position of the last state delivered (snapshot or event)
}

// sameEvent reports whether a delivered state event can be the emitted one:
// add and remove are passed on as they are, a change event may be reduced to
// the values that differ from the cached ones.
func sameEvent(event string, delivered json.RawMessage, emitted string) bool {
	switch event {
	case "add", "remove":
		var d, e struct {
			Idx   *int            `json:"idx"`
			Value json.RawMessage `json:"value"`
		}
		if json.Unmarshal(delivered, &d) != nil || json.Unmarshal([]byte(emitted), &e) != nil || d.Idx == nil || e.Idx == nil {
			return false
		}
		return *d.Idx == *e.Idx && CanonJSON(d.Value) == CanonJSON(e.Value)
	case "change":
		var d, e struct {
			Values map[string]json.RawMessage `json:"values"`
		}
		if json.Unmarshal(delivered, &d) != nil || json.Unmarshal([]byte(emitted), &e) != nil || len(d.Values) == 0 {
			return false
		}
		for k, v := range d.Values {
			ev, ok := e.Values[k]
			if !ok || CanonJSON(ev) != CanonJSON(v) {
				return false
			}
		}
		return true
	}
	return false
}

// otherEvent places a delivered state event that is not part of the stream:
// it was emitted when the stream stood at some position, and it has to be
// delivered at that very position - after every stream event emitted before
// it and before every one emitted after it.
func (m *SeqMon) otherEvent(w *World, c *Conn, ev ClientEvent, st *seqState) {
	if m.Relaxed {
		return
	}
	key := ridKey(w, c, ev.RID)
	for i := st.other; i < len(w.Svc.Events); i++ {
		e := w.Svc.Events[i]
		if e.Key != key || e.Tag != 0 || e.Event != ev.Event || !sameEvent(ev.Event, ev.Data, e.Payload) {
			continue
		}
		st.other = i + 1
		switch {
		case e.Pos == st.pos:
		case st.first && e.Pos == st.pos+1 && e.Pos%2 == 1:
			st.pos = e.Pos // the snapshot was taken after the custom event
		default:
			w.Fail("C03", "reordered", "%s: %s event on %s was emitted at stream position %d but delivered when the client was at %d", c.Label, ev.Event, ev.RID, e.Pos, st.pos)
		}
		return
	}
}

func snapSeq(cr *CRes) int {
	switch cr.Kind {
	case "model":
		n := 0
		if v, ok := cr.M["n"]; ok {
			json.Unmarshal(v, &n)
		}
		return n
	case "collection":
		n := 0
		for _, v := range cr.C {
			k := 0
			if json.Unmarshal(v, &k) == nil && k > n {
				n = k
			}
		}
		return n
	}
	return 0
}

func (m *SeqMon) Step(w *World, _ string) {
	if m.per == nil {
		m.per = map[string]*seqState{}
		m.fed = make([]int, len(w.Conns))
	}
	for i, c := range w.Conns {
		evs := c.Client.EventLog
		for _, ev := range evs[m.fed[i]:] {
			id := c.Label + " " + ev.RID
			pos := 0
			switch ev.Event {
			case "+hand":
				m.per[id] = &seqState{res: ev.Snap, pos: 2 * ev.Snap.Snap0, even: 2 * ev.Snap.Snap0, first: true}
				continue
			case "+drop", "delete", "unsubscribe":
				delete(m.per, id)
				continue
			case "custom":
				if ev.Seq > 0 {
					pos = 2*ev.Seq - 1
				}
			case "change":
				var d struct {
					Values map[string]json.RawMessage `json:"values"`
				}
				json.Unmarshal(ev.Data, &d)
				if v, ok := d.Values["n"]; ok {
					n := 0
					if json.Unmarshal(v, &n) == nil && n > 0 {
						pos = 2 * n
					}
				}
			case "add":
				var d struct {
					Value json.RawMessage `json:"value"`
				}
				json.Unmarshal(ev.Data, &d)
				n := 0
				if json.Unmarshal(d.Value, &n) == nil && n > 0 {
					pos = 2 * n
				}
			}
			st := m.per[id]
			if pos == 0 && ev.Held && st != nil {
				m.otherEvent(w, c, ev, st)
			}
			if pos == 0 || !ev.Held || st == nil {
				continue
			}
			if m.Relaxed {
				// State events may be dropped inside a reset or query window and
				// superseded by a derived event that comes later (the property's
				// exception). Custom events are never superseded: they keep their
				// order, each exactly once; a state event is never delivered twice.
				if pos%2 == 1 {
					switch {
					case st.odd == 0 && pos != st.pos+1 && pos != st.pos+3:
						w.Fail("C03", "gap-at-handover", "%s: first custom event of %s after hand-over has position %d but the snapshot stands for %d", c.Label, ev.RID, pos, st.pos)
					case st.odd != 0 && pos <= st.odd:
						w.Fail("C03", "duplicate-or-reordered", "%s: custom event at stream position %d of %s delivered when the client already had the one at %d", c.Label, pos, ev.RID, st.odd)
					case st.odd != 0 && pos != st.odd+2:
						w.Fail("C03", "gap", "%s: custom event at stream position %d of %s delivered right after the one at %d", c.Label, pos, ev.RID, st.odd)
					}
					st.odd = pos
				} else {
					if pos <= st.even {
						w.Fail("C03", "duplicate-or-reordered", "%s: state of stream position %d of %s delivered when the client already had that of %d", c.Label, pos, ev.RID, st.even)
					}
					st.even = pos
				}
				if pos > st.pos {
					st.pos = pos
				}
				st.first = false
				continue
			}
			switch {
			case pos <= st.pos:
				w.Fail("C03", "duplicate-or-reordered", "%s: stream position %d of %s delivered when the client already was at %d", c.Label, pos, ev.RID, st.pos)
			case st.first && pos > st.pos+2 && !(m.Relaxed && pos%2 == 0):
				w.Fail("C03", "gap-at-handover", "%s: first event of %s after hand-over has position %d but the snapshot stands for %d", c.Label, ev.RID, pos, st.pos)
			case !st.first && pos != st.pos+1 && !(m.Relaxed && pos%2 == 0):
				w.Fail("C03", "gap", "%s: stream position %d of %s delivered right after %d", c.Label, pos, ev.RID, st.pos)
			}
			if pos > st.pos {
				st.pos = pos
			}
			st.first = false
		}
		m.fed[i] = len(evs)
	}
}

func (m *SeqMon) End(w *World) {
	m.Step(w, "")
	for _, c := range w.Conns {
		if c.Disposed {
			continue
		}
		confirmed := c.Client.Confirmed()
		// the last event of a stream is the delete event: a client that held
		// the resource when the service deleted it has been told by now
		if !m.Relaxed {
			for rid := range confirmed {
				key := ridKey(w, c, rid)
				deletedAt := 0
				for _, e := range w.Svc.Events {
					if e.Key == key && e.Event == "delete" {
						deletedAt = e.Time
					}
				}
				if deletedAt == 0 {
					continue
				}
				handed, told := 0, false
				for _, ev := range c.Client.EventLog {
					if ev.RID != rid {
						continue
					}
					if ev.Event == "+hand" {
						handed = ev.At
					}
					if ev.Event == "delete" && ev.At >= deletedAt {
						told = true
					}
				}
				if handed != 0 && handed < deletedAt && !told {
					w.Fail("C03", "delete-not-delivered", "%s: holds %s since t=%d, the service deleted it at t=%d, but no delete event was delivered", c.Label, rid, handed, deletedAt)
				}
			}
		}
		for rid, cr := range c.Client.Store {
			if cr.Kind == "error" || cr.Deleted {
				continue
			}
			// only what is reachable from a confirmed subscription goes on
			// receiving events (not the data of a get request, nor the target of
			// a request that is still outstanding)
			if !confirmed[rid] {
				continue
			}
			key := ridKey(w, c, rid)
			sr := w.Svc.Res[key]
			if sr == nil || sr.Gone || sr.StreamLast == 0 {
				continue
			}
			st := m.per[c.Label+" "+rid]
			if st == nil {
				continue
			}
			if st.pos < sr.StreamLast && !(st.pos == sr.StreamLast-1 && sr.StreamLast%2 == 1 && st.first) {
				w.Fail("C03", "tail-missing", "%s: still holds %s at stream position %d but the service emitted up to %d", c.Label, rid, st.pos, sr.StreamLast)
			}
		}
	}
}

var _ = fmt.Sprintf
