package mc

import (
	"testing"
)

func BenchmarkRun(b *testing.B) {
	sc := smokeScenario()
	for i := 0; i < b.N; i++ {
		RunOnce(sc, nil, RunOpts{})
	}
}
