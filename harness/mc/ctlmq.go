package mc

import (
	"time"
	"fmt"
	"strings"
	"sync"

	"github.com/resgateio/resgate/server/mq"
)

// Req is a request the gateway sent to the messaging system and that the
// explorer has not answered yet (or has, if Answered).
type Req struct {
	Seq      int
	Subject  string // raw subject
	CSubject string // canonical subject (cids renamed)
	Payload  []byte
	CPayload string // canonical payload
	Name     string // stable name: canonical subject + payload + ordinal
	cb       mq.Response
	Answered bool
	TooLong  bool // the adapter would have refused the subject
	Time     int  // logical time (number of actions executed) at which it was sent
	AnsTime  int
	Outcome  string
	// Throttled: the request was made through a throttle (exact, from the call stack)
	Throttled bool
}

// MQSub is a subscription of the gateway on a namespace ("event.<name>",
// "conn.<cid>", "system").
type MQSub struct {
	mq        *MQ
	Namespace string
	cb        mq.Response
	Active    bool
	Epoch     int // ordinal of this subscription among all subscriptions
	Time      int
	unsubs    int
}

// MQRecord is one entry of the traffic log.
type MQRecord struct {
	Kind    string // SUB UNSUB REQ ANS EVT ERRUNSUB
	Subject string
	Payload string
	Time    int
}

// MQ is the controllable messaging client. It implements mq.Client.
type MQ struct {
	mu            sync.Mutex
	subs          []*MQSub
	reqs          []*Req
	names         map[string]int
	log           []MQRecord
	closed        bool
	lost          bool // connection lost: IsClosed reports true although Close was not called
	closedCB      func(error)
	// SubWindow, if set, is called inside Subscribe (no lock of the MQ held)
	// before it returns: see Sched.Window.
	SubWindow func(namespace string)
	// DuringClose, if set, is run (once, on a goroutine of its own) when
	// Close is entered: the adapter's listener may still be delivering a
	// message while the client is being closed.
	DuringClose func()
	epoch         int
	canon         func(string) string
	now           func() int
	onReq         []func(r *Req)
	onSub         []func(ns string, active bool)
	UseAfterClose int
	// cbMu serialises Close against callbacks in flight: like the real
	// adapter, no callback is delivered once Close has returned.
	cbMu sync.RWMutex
}

// InboxLen is the length of a nats inbox subject ("_INBOX." + 22 characters).
const InboxLen = 29

// MaxControlLine is nats.MAX_CONTROL_LINE_SIZE
const MaxControlLine = 4096

func NewMQ(canon func(string) string, now func() int) *MQ {
	return &MQ{names: map[string]int{}, canon: canon, now: now}
}

func (m *MQ) Connect() error {
	m.mu.Lock()
	m.closed = false
	m.lost = false
	m.mu.Unlock()
	return nil
}

// Lose marks the connection to the messaging system as lost (IsClosed
// reports true from now on, as the NATS adapter does when its connection is
// gone) and returns the closed handler to be called with the cause.
func (m *MQ) Lose() func(error) {
	m.mu.Lock()
	defer m.mu.Unlock()
	m.lost = true
	return m.closedCB
}

// Close drops all subscriptions and pending requests without completing
// them, like the NATS adapter does.
func (m *MQ) Close() {
	// messages the listener still delivers while the client is closing
	m.mu.Lock()
	during := m.DuringClose
	m.DuringClose = nil
	m.mu.Unlock()
	if during != nil {
		done := make(chan struct{})
		go func() { defer close(done); during() }()
		select {
		case <-done:
		case <-time.After(2 * time.Second): // blocked on a lock held by the closing side: let Close go on
		}
	}
	m.cbMu.Lock()
	defer m.cbMu.Unlock()
	m.mu.Lock()
	m.closed = true
	for _, s := range m.subs {
		s.Active = false
	}
	for _, r := range m.reqs {
		if !r.Answered {
			r.Answered = true
			r.Outcome = "dropped"
			r.AnsTime = m.now()
		}
	}
	m.mu.Unlock()
}

func (m *MQ) IsClosed() bool {
	m.mu.Lock()
	defer m.mu.Unlock()
	return m.closed || m.lost
}

func (m *MQ) SetClosedHandler(cb func(error)) {
	m.mu.Lock()
	m.closedCB = cb
	m.mu.Unlock()
}

func (m *MQ) ClosedHandler() func(error) {
	m.mu.Lock()
	defer m.mu.Unlock()
	return m.closedCB
}

func (m *MQ) SendRequest(subject string, payload []byte, cb mq.Response) {
	m.mu.Lock()
	if m.closed {
		m.UseAfterClose++
	}
	cs := m.canon(subject)
	cp := m.canon(string(payload))
	key := cs + " " + cp
	n := m.names[key]
	m.names[key] = n + 1
	r := &Req{
		Seq:      len(m.reqs),
		Subject:  subject,
		CSubject: cs,
		Payload:  append([]byte(nil), payload...),
		CPayload: cp,
		Name:     fmt.Sprintf("%s#%d", key, n),
		cb:       cb,
		Time:     m.now(),
		TooLong:  len(subject)+InboxLen > MaxControlLine,
		// made by a callback of a throttle: called from Throttle.Add itself, or
		// the task that Throttle.Done started for the next callback in line
		Throttled: stackHas("rescache.(*Throttle).Add") || (inThrottleTask && stackHas("mc.(*Sched).RunTask")),
	}
	if len(r.Name) > 200 {
		r.Name = fmt.Sprintf("%s…(%d)#%d", key[:80], len(key), n)
	}
	m.reqs = append(m.reqs, r)
	m.log = append(m.log, MQRecord{"REQ", subject, string(payload), r.Time})
	hooks := m.onReq
	m.mu.Unlock()
	for _, h := range hooks {
		h(r)
	}
}

type unsubscriber struct{ s *MQSub }

func (u unsubscriber) Unsubscribe() error {
	m := u.s.mq
	m.mu.Lock()
	defer m.mu.Unlock()
	u.s.unsubs++
	if !u.s.Active {
		m.log = append(m.log, MQRecord{"ERRUNSUB", u.s.Namespace, "", m.now()})
		return fmt.Errorf("nats: invalid subscription")
	}
	u.s.Active = false
	m.log = append(m.log, MQRecord{"UNSUB", u.s.Namespace, "", m.now()})
	for _, h := range m.onSub {
		h(u.s.Namespace, false)
	}
	return nil
}

func (m *MQ) Subscribe(namespace string, cb mq.Response) (mq.Unsubscriber, error) {
	if len(namespace) > MaxControlLine-2 {
		return nil, mq.ErrSubjectTooLong
	}
	m.mu.Lock()
	if m.closed {
		m.UseAfterClose++
	}
	m.epoch++
	s := &MQSub{mq: m, Namespace: namespace, cb: cb, Active: true, Epoch: m.epoch, Time: m.now()}
	m.subs = append(m.subs, s)
	m.log = append(m.log, MQRecord{"SUB", namespace, "", s.Time})
	for _, h := range m.onSub {
		h(namespace, true)
	}
	win := m.SubWindow
	m.mu.Unlock()
	// a Subscribe call takes time on a real connection: a scenario may let
	// another actor run a closure while this call is in progress
	if win != nil {
		win(namespace)
	}
	return unsubscriber{s}, nil
}

// Pending returns the unanswered requests, oldest first.
func (m *MQ) Pending() []*Req {
	m.mu.Lock()
	defer m.mu.Unlock()
	var out []*Req
	for _, r := range m.reqs {
		if !r.Answered {
			out = append(out, r)
		}
	}
	return out
}

// Requests returns all requests sent so far.
func (m *MQ) Requests() []*Req {
	m.mu.Lock()
	defer m.mu.Unlock()
	return append([]*Req(nil), m.reqs...)
}

// Answer delivers a response to a pending request on the caller's goroutine
// (the real adapter delivers from its single listener goroutine).
func (m *MQ) Answer(r *Req, outcome string, data []byte, err error) {
	m.cbMu.RLock()
	defer m.cbMu.RUnlock()
	m.mu.Lock()
	if m.closed {
		m.mu.Unlock()
		return
	}
	if r.Answered {
		m.mu.Unlock()
		panic("ctlmq: request answered twice: " + r.Name)
	}
	r.Answered = true
	r.AnsTime = m.now()
	r.Outcome = outcome
	p := string(data)
	if err != nil {
		p = "ERR " + err.Error()
	}
	m.log = append(m.log, MQRecord{"ANS", r.Subject, p, r.AnsTime})
	m.mu.Unlock()
	if err != nil {
		r.cb("", nil, err)
	} else {
		r.cb(r.Subject, data, nil)
	}
}

// ActiveSubs returns the active subscriptions by namespace.
func (m *MQ) ActiveSubs() []*MQSub {
	m.mu.Lock()
	defer m.mu.Unlock()
	var out []*MQSub
	for _, s := range m.subs {
		if s.Active {
			out = append(out, s)
		}
	}
	return out
}

// Subscribed returns the active subscription on a namespace, if any.
func (m *MQ) Subscribed(namespace string) *MQSub {
	m.mu.Lock()
	defer m.mu.Unlock()
	for i := len(m.subs) - 1; i >= 0; i-- {
		if s := m.subs[i]; s.Active && s.Namespace == namespace {
			return s
		}
	}
	return nil
}

// Publish delivers an event on subject to every active subscription whose
// namespace is the subject minus its last token (the adapter subscribes to
// namespace + ".*"). Returns the number of deliveries.
func (m *MQ) Publish(subject string, payload []byte) int {
	i := strings.LastIndexByte(subject, '.')
	if i < 0 {
		return 0
	}
	ns := subject[:i]
	m.cbMu.RLock()
	defer m.cbMu.RUnlock()
	m.mu.Lock()
	if m.closed {
		m.mu.Unlock()
		return 0
	}
	var targets []*MQSub
	for _, s := range m.subs {
		if s.Active && s.Namespace == ns {
			targets = append(targets, s)
		}
	}
	m.log = append(m.log, MQRecord{"EVT", subject, string(payload), m.now()})
	m.mu.Unlock()
	for _, s := range targets {
		s.cb(subject, payload, nil)
	}
	return len(targets)
}

// RawLog returns the traffic log from index from on, without canonicalisation.
func (m *MQ) RawLog(from int) []MQRecord {
	m.mu.Lock()
	defer m.mu.Unlock()
	if from > len(m.log) {
		from = len(m.log)
	}
	return append([]MQRecord(nil), m.log[from:]...)
}

// LogLen returns the number of log records.
func (m *MQ) LogLen() int {
	m.mu.Lock()
	defer m.mu.Unlock()
	return len(m.log)
}

// Log returns a copy of the traffic log.
func (m *MQ) Log() []MQRecord {
	m.mu.Lock()
	defer m.mu.Unlock()
	out := make([]MQRecord, len(m.log))
	for i, r := range m.log {
		out[i] = MQRecord{r.Kind, m.canon(r.Subject), m.canon(r.Payload), r.Time}
	}
	return out
}
