package mc

import (
	"encoding/json"
	"fmt"
	"sort"
	"strings"
)

// SvcRes is the state of one resource (or one normalised query of a
// resource) held by the atomic service model. Values are raw JSON in RES
// service wire form: primitives, {"rid":"x"}, {"rid":"x","soft":true},
// {"data":...}.
type SvcRes struct {
	Kind string // "model", "collection" or "error"
	M    map[string]string
	C    []string
	Err  string // error code when Kind=="error"
	// Ann is the state last announced to the gateway (differs from the
	// current state only between a silent mutation and its reset/query).
	AnnM  map[string]string
	AnnC  []string
	PreM  map[string]string // model state before the unannounced mutation(s)
	Dirty bool
	// NoConv marks a resource for which the service has answered
	// untruthfully or not at all: convergence is not expected any more.
	NoConv bool
	Seq    int // number of stream events emitted for this resource
	// StreamLast is the last emitted position of the C03 stream discipline
	// (custom k = 2k-1, state event writing k = 2k); 0 if unused.
	StreamLast int
	Gone       bool
}

// SvcEvent is one emitted event of a resource's stream.
type SvcEvent struct {
	Key   string // resource key
	Event string
	Seq   int
	Time  int
	Tag   int // stream sequence number carried by the event (0 if none)
	// Pos is the last stream position emitted on the resource up to and
	// including this event; Payload is the event payload as emitted.
	Pos     int
	Payload string
}

// SvcModel is the atomic service: answers are computed when delivered.
type SvcModel struct {
	w *World
	// ResetQuiet: per system.reset sent, whether the gateway was internally quiet at that moment
	ResetQuiet []bool
	Res    map[string]*SvcRes
	Norm   func(name, q string) string
	Access func(name, q, cid, token string) string
	Call   func(name, method string, payload string) string // full response JSON
	Events []SvcEvent
	// GetCount counts delivered get answers per key
	GetAnswers map[string]int
	// Deleted lists the resource names for which a delete event was emitted.
	Deleted map[string]bool
}

func newSvc(w *World) *SvcModel {
	return &SvcModel{
		w:          w,
		Res:        map[string]*SvcRes{},
		Norm:       func(_, q string) string { return q },
		Access:     func(_, _, _, _ string) string { return `{"get":true,"call":"*"}` },
		GetAnswers: map[string]int{},
		Deleted:    map[string]bool{},
	}
}

func cloneM(m map[string]string) map[string]string {
	o := make(map[string]string, len(m))
	for k, v := range m {
		o[k] = v
	}
	return o
}

// Model defines a model resource. kv alternates key, raw JSON value.
func (s *SvcModel) Model(key string, kv ...string) *SvcRes {
	r := &SvcRes{Kind: "model", M: map[string]string{}}
	for i := 0; i+1 < len(kv); i += 2 {
		r.M[kv[i]] = kv[i+1]
	}
	r.AnnM = cloneM(r.M)
	s.Res[key] = r
	return r
}

// Collection defines a collection resource.
func (s *SvcModel) Collection(key string, vals ...string) *SvcRes {
	r := &SvcRes{Kind: "collection", C: append([]string(nil), vals...)}
	r.AnnC = append([]string(nil), r.C...)
	s.Res[key] = r
	return r
}

// Error defines a resource whose get fails with the RES error code.
func (s *SvcModel) Error(key, code string) *SvcRes {
	r := &SvcRes{Kind: "error", Err: code}
	s.Res[key] = r
	return r
}

func jsonModel(m map[string]string) string {
	keys := make([]string, 0, len(m))
	for k := range m {
		keys = append(keys, k)
	}
	sort.Strings(keys)
	var b strings.Builder
	b.WriteByte('{')
	for i, k := range keys {
		if i > 0 {
			b.WriteByte(',')
		}
		kb, _ := json.Marshal(k)
		b.Write(kb)
		b.WriteByte(':')
		b.WriteString(m[k])
	}
	b.WriteByte('}')
	return b.String()
}

func jsonColl(c []string) string {
	return "[" + strings.Join(c, ",") + "]"
}

// ErrJSON is a RES error response.
func ErrJSON(code, msg string) []byte {
	return []byte(fmt.Sprintf(`{"error":{"code":%q,"message":%q}}`, code, msg))
}

func splitKey(key string) (name, q string) {
	if i := strings.IndexByte(key, '?'); i >= 0 {
		return key[:i], key[i+1:]
	}
	return key, ""
}

// resKey returns the key of the resource addressed by name and raw query.
func (s *SvcModel) resKey(name, q string) (key, nq string) {
	if q == "" {
		return name, ""
	}
	nq = s.Norm(name, q)
	return name + "?" + nq, nq
}

// GetAnswer computes the response to get.<name> with the raw query.
func (s *SvcModel) GetAnswer(name, q string) []byte {
	key, nq := s.resKey(name, q)
	r := s.Res[key]
	if r == nil || r.Gone {
		return ErrJSON("system.notFound", "Not found")
	}
	if r.Kind == "error" {
		return ErrJSON(r.Err, "Error "+r.Err)
	}
	s.GetAnswers[key]++
	r.AnnM = cloneM(r.M)
	r.AnnC = append([]string(nil), r.C...)
	r.Dirty = false
	qs := ""
	if q != "" {
		b, _ := json.Marshal(nq)
		qs = `,"query":` + string(b)
	}
	if r.Kind == "model" {
		return []byte(`{"result":{"model":` + jsonModel(r.M) + qs + `}}`)
	}
	return []byte(`{"result":{"collection":` + jsonColl(r.C) + qs + `}}`)
}

func (s *SvcModel) emit(key, event, payload string) {
	name, _ := splitKey(key)
	r := s.Res[key]
	if r != nil {
		r.Seq++
		s.Events = append(s.Events, SvcEvent{Key: key, Event: event, Seq: r.Seq, Time: s.w.time, Pos: r.StreamLast, Payload: payload})
	}
	s.w.MQ.Publish("event."+name+"."+event, []byte(payload))
}

// Change mutates model properties and emits the change event. A value of
// `{"action":"delete"}` deletes the key.
func (s *SvcModel) Change(key string, kv ...string) {
	r := s.Res[key]
	ch := map[string]string{}
	for i := 0; i+1 < len(kv); i += 2 {
		k, v := kv[i], kv[i+1]
		ch[k] = v
		if v == DeleteAction {
			delete(r.M, k)
			delete(r.AnnM, k)
		} else {
			r.M[k] = v
			r.AnnM[k] = v
		}
	}
	s.emit(key, "change", `{"values":`+jsonModel(ch)+`}`)
}

// DeleteAction is the RES delete action value.
const DeleteAction = `{"action":"delete"}`

// Add inserts a value into a collection and emits the add event.
func (s *SvcModel) Add(key string, idx int, v string) {
	r := s.Res[key]
	ins := func(c []string) []string {
		o := make([]string, 0, len(c)+1)
		o = append(o, c[:idx]...)
		o = append(o, v)
		return append(o, c[idx:]...)
	}
	r.C = ins(r.C)
	if idx <= len(r.AnnC) {
		r.AnnC = ins(r.AnnC)
	}
	s.emit(key, "add", fmt.Sprintf(`{"idx":%d,"value":%s}`, idx, v))
}

// Remove removes a value from a collection and emits the remove event.
func (s *SvcModel) Remove(key string, idx int) {
	r := s.Res[key]
	rm := func(c []string) []string {
		o := make([]string, 0, len(c))
		o = append(o, c[:idx]...)
		return append(o, c[idx+1:]...)
	}
	r.C = rm(r.C)
	if idx < len(r.AnnC) {
		r.AnnC = rm(r.AnnC)
	}
	s.emit(key, "remove", fmt.Sprintf(`{"idx":%d}`, idx))
}

// Custom emits a custom event carrying the stream sequence number.
func (s *SvcModel) Custom(key string) {
	r := s.Res[key]
	s.emit(key, "custom", fmt.Sprintf(`{"seq":%d}`, r.Seq+1))
}

// StreamNext emits the next event of the C03 stream discipline for the
// resource: custom{seq:k} and the state event writing k, alternating.
func (s *SvcModel) StreamNext(key string) {
	r := s.Res[key]
	k := r.StreamLast/2 + 1
	if r.StreamLast%2 == 0 {
		r.StreamLast = 2*k - 1
		s.emit(key, "custom", fmt.Sprintf(`{"seq":%d}`, k))
		s.Events[len(s.Events)-1].Tag = k
		return
	}
	r.StreamLast = 2 * k
	if r.Kind == "model" {
		s.Change(key, "n", fmt.Sprint(k))
	} else {
		s.Add(key, len(r.C), fmt.Sprint(k))
	}
	s.Events[len(s.Events)-1].Tag = k
}

// Delete emits a delete event; the resource answers system.notFound afterwards.
func (s *SvcModel) Delete(key string) {
	r := s.Res[key]
	r.Gone = true
	name, _ := splitKey(key)
	s.Deleted[name] = true
	s.emit(key, "delete", `null`)
}

// Reaccess emits a reaccess event.
func (s *SvcModel) Reaccess(key string) {
	name, _ := splitKey(key)
	s.w.MQ.Publish("event."+name+".reaccess", nil)
}

// Silent mutates without announcing anything.
func (s *SvcModel) Silent(key string, f func(r *SvcRes)) {
	r := s.Res[key]
	if !r.Dirty {
		// what a query response in "events" form is relative to
		r.PreM = cloneM(r.M)
	}
	f(r)
	r.Dirty = true
}

// Reset publishes system.reset.
func (s *SvcModel) Reset(resources, access []string) {
	type p struct {
		Resources []string `json:"resources,omitempty"`
		Access    []string `json:"access,omitempty"`
	}
	b, _ := json.Marshal(p{resources, access})
	// was the gateway internally quiet when the reset was sent? (then nothing
	// sent earlier is still waiting to be processed ahead of it)
	s.ResetQuiet = append(s.ResetQuiet, s.w.internalQuiet())
	s.w.MQ.Publish("system.reset", b)
}

// QueryEvent publishes a query event on the resource name.
func (s *SvcModel) QueryEvent(name, subject string) {
	s.w.MQ.Publish("event."+name+".query", []byte(fmt.Sprintf(`{"subject":%q}`, subject)))
}

// QueryAnswer computes the response to a query request: mode is "model"
// (full model/collection), "events" or "empty".
func (s *SvcModel) QueryAnswer(name, nq, mode string) []byte {
	key := name + "?" + nq
	r := s.Res[key]
	if r == nil || r.Gone {
		return ErrJSON("system.notFound", "Not found")
	}
	if mode != "empty" {
		defer func() {
			r.AnnM = cloneM(r.M)
			r.AnnC = append([]string(nil), r.C...)
			r.Dirty = false
		}()
	}
	switch mode {
	case "events":
		// events relative to the state before the mutation (idempotent for
		// models); collections are answered in full
		if r.Kind != "model" {
			return []byte(`{"result":{"collection":` + jsonColl(r.C) + `}}`)
		}
		var evs []string
		pre := r.PreM
		if pre == nil {
			pre = r.AnnM
		}
		ch := map[string]string{}
		for k, v := range r.M {
			if pre[k] != v {
				ch[k] = v
			}
		}
		for k := range pre {
			if _, ok := r.M[k]; !ok {
				ch[k] = DeleteAction
			}
		}
		if len(ch) > 0 {
			evs = append(evs, `{"event":"change","data":{"values":`+jsonModel(ch)+`}}`)
		}
		return []byte(`{"result":{"events":[` + strings.Join(evs, ",") + `]}}`)
	case "empty":
		return []byte(`{"result":{"events":[]}}`)
	default:
		if r.Kind == "model" {
			return []byte(`{"result":{"model":` + jsonModel(r.M) + `}}`)
		}
		return []byte(`{"result":{"collection":` + jsonColl(r.C) + `}}`)
	}
}

// TokenEvent publishes conn.<cid>.token for connection index i.
func (s *SvcModel) TokenEvent(i int, token string, tid string) {
	c := s.w.Conns[i]
	p := `{"token":` + token
	if tid != "" {
		p += fmt.Sprintf(`,"tid":%q`, tid)
	}
	p += `}`
	s.w.MQ.Publish("conn."+c.CID+".token", []byte(p))
}

// TokenEventCID publishes a token event for a connection id (e.g. the
// temporary connection of an HTTP request, whose id the service learns from
// the request payload).
func (s *SvcModel) TokenEventCID(cid, token string) {
	s.w.MQ.Publish("conn."+cid+".token", []byte(`{"token":`+token+`}`))
}

// HTTPCID returns the connection id of the oldest unanswered request made by
// a temporary HTTP connection ("" if there is none).
func (s *SvcModel) HTTPCID() string {
	for _, r := range s.w.MQ.Pending() {
		f := parseReq(r.Payload)
		if f.IsHTTP && f.CID != "" {
			return f.CID
		}
	}
	return ""
}

// TokenReset publishes system.tokenReset.
func (s *SvcModel) TokenReset(subject string, tids ...string) {
	b, _ := json.Marshal(map[string]interface{}{"tids": tids, "subject": subject})
	s.w.MQ.Publish("system.tokenReset", b)
}

// reqFields decodes the fields of a service request payload.
type reqFields struct {
	Query  string          `json:"query"`
	CID    string          `json:"cid"`
	Token  json.RawMessage `json:"token"`
	Params json.RawMessage `json:"params"`
	IsHTTP bool            `json:"isHttp"`
}

func parseReq(p []byte) reqFields {
	var f reqFields
	json.Unmarshal(p, &f)
	return f
}

// DefaultAnswer computes the service's truthful answer to a request.
func (s *SvcModel) DefaultAnswer(r *Req) []byte {
	subj := r.Subject
	f := parseReq(r.Payload)
	switch {
	case strings.HasPrefix(subj, "get."):
		return s.GetAnswer(subj[4:], f.Query)
	case strings.HasPrefix(subj, "access."):
		return []byte(`{"result":` + s.Access(subj[7:], f.Query, f.CID, string(f.Token)) + `}`)
	case strings.HasPrefix(subj, "call."), strings.HasPrefix(subj, "auth."):
		rest := subj[5:]
		i := strings.LastIndexByte(rest, '.')
		if s.Call != nil {
			return []byte(s.Call(rest[:i], rest[i+1:], string(r.Payload)))
		}
		return []byte(`{"result":null}`)
	}
	return []byte(`{"result":null}`)
}

// ParseQuery returns the query field of a request payload.
func ParseQuery(p []byte) string { return parseReq(p).Query }
