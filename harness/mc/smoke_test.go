package mc

import (
	"fmt"
	"testing"
	"time"
)

func smokeScenario() *Scenario {
	return &Scenario{
		Name: "smoke",
		Conns: []ConnSpec{{Version: "1.2.3", Script: []ClientReq{
			{Method: "version", Params: `{"protocol":"1.2.3"}`},
			{Method: "subscribe.test.parent"},
		}}},
		Init: func(w *World) {
			w.Svc.Model("test.parent", "name", `"p"`, "child", `{"rid":"test.child"}`)
			w.Svc.Model("test.child", "n", `0`)
		},
		Threads: []Thread{{Name: "svc", Ops: []Op{
			{Name: "change", Do: func(w *World) { w.Svc.Change("test.child", "n", `1`) }},
		}}},
	}
}

func TestSmoke(t *testing.T) {
	sc := smokeScenario()
	x := RunOnce(sc, nil, RunOpts{KeepTrace: true})
	for i, p := range x.Points {
		fmt.Printf("%2d %-60s  (%d enabled)\n", i, p.Enabled[p.Chosen], len(p.Enabled))
	}
	for c, fs := range x.Frames {
		for _, f := range fs {
			fmt.Println(c, f)
		}
	}
	for _, r := range x.MQLog {
		fmt.Println(r.Time, r.Kind, r.Subject, r.Payload)
	}
	fmt.Println("viol", x.Viol, "digest", x.Digest, "hung", x.Hung)
	y := RunOnce(sc, x.Choices, RunOpts{})
	if y.Digest != x.Digest || y.Diverged {
		t.Fatalf("replay differs %v", y.Diverged)
	}
	for _, b := range []int{1, 2} {
		e := &Explorer{Sc: sc, Bound: b, Stats: NewStats(), ReplayMod: 16}
		t0 := time.Now()
		e.Explore(nil, 0)
		d := time.Since(t0)
		fmt.Printf("bound %d: execs=%d points=%d digests=%d diverged=%d replaydiffs=%d/%d found=%d in %v (%.0f/s)\n", b, e.Stats.Executions, e.Stats.Points, len(e.Stats.Digests), e.Stats.Diverged, e.Stats.ReplayDiffs, e.Stats.ReplayChecks, len(e.Stats.Found), d, float64(e.Stats.Executions)/d.Seconds())
	}
}
