package mc

import (
	"bytes"
	"encoding/json"
	"fmt"
	"sort"
	"strings"
)

// CRes is a resource as held by the reference client, in client wire form.
type CRes struct {
	Kind    string // "model", "collection", "error"
	M       map[string]json.RawMessage
	C       []json.RawMessage
	Err     string
	Deleted bool
	// Stream bookkeeping (C03)
	HandedAt int   // frame index at which the resource was handed over
	Seqs     []int // sequence numbers of events delivered since hand-over
	Snap0    int   // stream sequence number contained in the snapshot as handed over
}

// PendingReq is a client request that has not been answered yet.
type PendingReq struct {
	ID     int
	Method string // full method string
	Action string // subscribe, get, unsubscribe, call, auth, new, version, ""
	RID    string
	Count    int
	BadCount bool // unsubscribe count that is not a positive integer
	SentAt   int  // world time
}

// ClientIssue is a protocol violation observed by the reference client.
type ClientIssue struct {
	Prop  string // property the issue belongs to (C02, C03, C07)
	Msg   string
	Frame int
}

// Response is a received response frame.
type Response struct {
	ID     int
	Req    *PendingReq
	IsErr  bool
	Code   string
	Result json.RawMessage
	At     int // world time
	Frame  int
}

// RefClient is a protocol-following RES client with reachability-based
// retention. It is fed every frame the gateway sends to one connection.
type RefClient struct {
	Proto   int // negotiated protocol version as MAJOR*1e6+MINOR*1e3+PATCH
	Direct  map[string]int
	Store   map[string]*CRes
	Pending map[int]*PendingReq
	Done    map[int]*Response
	Resp    []*Response
	Issues  []ClientIssue
	Resends []string
	nframes int
	curAt   int
	// Events delivered, per rid, in order: "event" names with seq if any
	EventLog []ClientEvent
	Closed   bool
	// Ambiguous lists rids for which a resource response carried an error
	// entry: whether that counts as a direct subscription is left open (the
	// gateway keeps it for a failed get and drops it for a refused access,
	// and the two look alike to the client).
	Ambiguous map[string]bool
	// ByGet lists the rids whose data the client last received through a get
	// response (frame index), i.e. without any subscription.
	ByGet map[string]int
	// Overdrawn counts, per rid, the direct subscriptions that successful
	// unsubscribe requests released beyond those confirmed to the client.
	Overdrawn map[string]int
	// DataAt is the index of the last frame that carried data for a rid.
	DataAt map[string]int
	// EverRef lists the rids that some stored resource ever referenced (non-soft).
	EverRef map[string]bool
}

// ClientEvent is a journal entry of the client: an event frame received
// (Event = the event name), a resource handed over in a resource set
// (Event = "+hand", Snap = the snapshot) or a resource dropped because it
// became unreachable (Event = "+drop").
type ClientEvent struct {
	Snap  *CRes
	RID   string
	Event string
	Data  json.RawMessage
	Seq   int // stream sequence number carried by the event, 0 if none
	Frame int
	At    int  // world time at which the frame was received
	Held  bool // client held the resource when the event arrived
}

func NewRefClient() *RefClient {
	return &RefClient{
		Proto:   1001001,
		Direct:  map[string]int{},
		Store:   map[string]*CRes{},
		Pending: map[int]*PendingReq{},
		Done:    map[int]*Response{},
	}
}

func (c *RefClient) issue(prop, format string, a ...interface{}) {
	c.Issues = append(c.Issues, ClientIssue{prop, fmt.Sprintf(format, a...), c.nframes})
}

// Sent registers a request the client is about to send.
func (c *RefClient) Sent(id int, method string, params string, at int) *PendingReq {
	p := &PendingReq{ID: id, Method: method, SentAt: at, Count: 1}
	if i := strings.IndexByte(method, '.'); i >= 0 {
		p.Action = method[:i]
		p.RID = method[i+1:]
		if p.Action == "call" || p.Action == "auth" {
			if j := strings.LastIndexByte(p.RID, '.'); j >= 0 {
				p.RID = p.RID[:j]
			}
		}
	} else {
		p.Action = method
	}
	if p.Action == "unsubscribe" && params != "" {
		var u struct {
			Count *json.RawMessage `json:"count"`
		}
		if json.Unmarshal([]byte(params), &u) != nil {
			p.BadCount = true
		} else if u.Count != nil && string(*u.Count) != "null" {
			n := 0
			if json.Unmarshal(*u.Count, &n) != nil || n <= 0 {
				p.BadCount = true
			} else {
				p.Count = n
			}
		}
	}
	if p.Action == "version" && params != "" {
		var v struct {
			Protocol string `json:"protocol"`
		}
		json.Unmarshal([]byte(params), &v)
		p.RID = v.Protocol
	}
	c.Pending[id] = p
	return p
}

func parseProto(s string) int {
	parts := strings.Split(s, ".")
	if len(parts) != 3 {
		return 0
	}
	v := 0
	for _, p := range parts {
		n := 0
		fmt.Sscanf(p, "%d", &n)
		v = v*1000 + n
	}
	return v
}

type resourceSet struct {
	Models      map[string]map[string]json.RawMessage `json:"models"`
	Collections map[string][]json.RawMessage          `json:"collections"`
	Errors      map[string]json.RawMessage            `json:"errors"`
}

// refRID returns the rid a value refers to with a non-soft reference.
func refRID(v json.RawMessage) (string, bool) {
	if len(v) == 0 || v[0] != '{' {
		return "", false
	}
	var o struct {
		RID  *string `json:"rid"`
		Soft bool    `json:"soft"`
	}
	if json.Unmarshal(v, &o) != nil || o.RID == nil || o.Soft {
		return "", false
	}
	return *o.RID, true
}

func (r *CRes) refs() []string {
	var out []string
	for _, v := range r.M {
		if rid, ok := refRID(v); ok {
			out = append(out, rid)
		}
	}
	for _, v := range r.C {
		if rid, ok := refRID(v); ok {
			out = append(out, rid)
		}
	}
	return out
}

func (c *RefClient) addResources(rs *resourceSet) {
	if c.DataAt == nil {
		c.DataAt = map[string]int{}
	}
	for rid := range rs.Models {
		c.DataAt[rid] = c.nframes
	}
	for rid := range rs.Collections {
		c.DataAt[rid] = c.nframes
	}
	for rid := range rs.Models {
		delete(c.ByGet, rid)
	}
	for rid := range rs.Collections {
		delete(c.ByGet, rid)
	}
	for rid, m := range rs.Models {
		if _, ok := c.Store[rid]; ok {
			c.Resends = append(c.Resends, rid)
		}
		c.Store[rid] = &CRes{Kind: "model", M: m, HandedAt: c.nframes}
		c.Store[rid].Snap0 = snapSeq(c.Store[rid])
		c.EventLog = append(c.EventLog, ClientEvent{RID: rid, Event: "+hand", Snap: c.Store[rid], Frame: c.nframes, At: c.curAt})
	}
	for rid, l := range rs.Collections {
		if _, ok := c.Store[rid]; ok {
			c.Resends = append(c.Resends, rid)
		}
		c.Store[rid] = &CRes{Kind: "collection", C: l, HandedAt: c.nframes}
		c.Store[rid].Snap0 = snapSeq(c.Store[rid])
		c.EventLog = append(c.EventLog, ClientEvent{RID: rid, Event: "+hand", Snap: c.Store[rid], Frame: c.nframes, At: c.curAt})
	}
	for rid, e := range rs.Errors {
		var ee struct {
			Code string `json:"code"`
		}
		json.Unmarshal(e, &ee)
		if old, ok := c.Store[rid]; ok && old.Kind != "error" {
			c.Resends = append(c.Resends, rid)
		}
		c.Store[rid] = &CRes{Kind: "error", Err: ee.Code, HandedAt: c.nframes}
	}
}

// collect drops every stored resource not reachable from a direct
// subscription over non-soft references.
func (c *RefClient) collect() {
	reach := map[string]bool{}
	var visit func(rid string)
	visit = func(rid string) {
		if reach[rid] {
			return
		}
		r := c.Store[rid]
		if r == nil {
			return
		}
		reach[rid] = true
		for _, x := range r.refs() {
			visit(x)
		}
	}
	for rid, n := range c.Direct {
		if n > 0 {
			visit(rid)
		}
	}
	// The gateway counts a direct subscription from the moment it processes
	// the request; a client cannot know when that is, so the rid of an
	// outstanding subscribe or get request is a provisional root.
	for _, p := range c.Pending {
		if p.Action == "subscribe" || p.Action == "get" {
			visit(p.RID)
		}
	}
	for rid := range c.Store {
		if !reach[rid] {
			delete(c.Store, rid)
			c.EventLog = append(c.EventLog, ClientEvent{RID: rid, Event: "+drop", Frame: c.nframes})
		}
	}
}

// checkDangling verifies that every non-soft reference held resolves.
func (c *RefClient) checkDangling(ctx string) {
	if c.EverRef == nil {
		c.EverRef = map[string]bool{}
	}
	for _, r := range c.Store {
		for _, x := range r.refs() {
			c.EverRef[x] = true
		}
	}
	rids := make([]string, 0, len(c.Store))
	for rid := range c.Store {
		rids = append(rids, rid)
	}
	sort.Strings(rids)
	for _, rid := range rids {
		for _, x := range c.Store[rid].refs() {
			if _, ok := c.Store[x]; !ok {
				c.issue("C02", "after %s: %s holds a reference to %s, for which the client has neither data nor an error", ctx, rid, x)
			}
		}
	}
}

// Confirmed returns the rids reachable from confirmed direct subscriptions
// (provisional roots of outstanding requests excluded).
func (c *RefClient) Confirmed() map[string]bool {
	reach := map[string]bool{}
	var visit func(rid string)
	visit = func(rid string) {
		if reach[rid] {
			return
		}
		r := c.Store[rid]
		if r == nil {
			return
		}
		reach[rid] = true
		for _, x := range r.refs() {
			visit(x)
		}
	}
	for rid, n := range c.Direct {
		if n > 0 {
			visit(rid)
		}
	}
	return reach
}

// Holds reports whether the client retains the rid.
func (c *RefClient) Holds(rid string) bool {
	_, ok := c.Store[rid]
	return ok
}

// Frame processes one frame sent by the gateway.
func (c *RefClient) Frame(data []byte, at int) {
	c.nframes++
	c.curAt = at
	var f struct {
		ID     *int            `json:"id"`
		Result json.RawMessage `json:"result"`
		Error  *struct {
			Code    *string `json:"code"`
			Message *string `json:"message"`
		} `json:"error"`
		Event *string         `json:"event"`
		Data  json.RawMessage `json:"data"`
	}
	dec := json.NewDecoder(bytes.NewReader(data))
	if err := dec.Decode(&f); err != nil {
		c.issue("C07", "frame is not a JSON object: %q", data)
		return
	}
	switch {
	case f.Event != nil:
		c.event(*f.Event, f.Data)
	case f.ID != nil:
		c.response(*f.ID, f.Result, f.Error != nil, func() string {
			if f.Error != nil && f.Error.Code != nil {
				return *f.Error.Code
			}
			return ""
		}(), f.Error != nil && (f.Error.Code == nil || f.Error.Message == nil), at)
	default:
		c.issue("C07", "frame with neither id nor event: %s", data)
	}
}

func (c *RefClient) response(id int, result json.RawMessage, isErr bool, code string, badErr bool, at int) {
	p := c.Pending[id]
	r := &Response{ID: id, Req: p, IsErr: isErr, Code: code, Result: result, At: at, Frame: c.nframes}
	c.Resp = append(c.Resp, r)
	if p == nil {
		if c.Done[id] != nil {
			c.issue("C07", "second response for request id %d (%s)", id, c.Done[id].Req.Method)
		} else {
			c.issue("C07", "response for unknown request id %d", id)
		}
		return
	}
	delete(c.Pending, id)
	c.Done[id] = r
	if badErr {
		c.issue("C07", "error response for id %d lacks string code/message", id)
	}
	if isErr {
		return
	}
	switch p.Action {
	case "version":
		if v := parseProto(p.RID); v > 0 {
			c.Proto = v
		}
	case "subscribe":
		var rs resourceSet
		json.Unmarshal(result, &rs)
		c.addResources(&rs)
		c.Direct[p.RID]++
		if !c.Holds(p.RID) {
			c.issue("C02", "subscribe response for %s does not contain the resource", p.RID)
		}
		c.checkDangling("subscribe response " + p.RID)
		c.collect()
	case "get":
		var rs resourceSet
		json.Unmarshal(result, &rs)
		c.addResources(&rs)
		if c.ByGet == nil {
			c.ByGet = map[string]int{}
		}
		for rid := range rs.Models {
			c.ByGet[rid] = c.nframes
		}
		for rid := range rs.Collections {
			c.ByGet[rid] = c.nframes
		}
		if !c.Holds(p.RID) {
			c.issue("C02", "get response for %s does not contain the resource", p.RID)
		}
		c.checkDangling("get response " + p.RID)
		c.collect()
	case "unsubscribe":
		c.Direct[p.RID] -= p.Count
		if c.Direct[p.RID] < 0 {
			// the gateway released more direct subscriptions than this client was
			// ever told about: counts of requests that are still outstanding
			if c.Overdrawn == nil {
				c.Overdrawn = map[string]int{}
			}
			c.Overdrawn[p.RID] -= c.Direct[p.RID]
			c.Direct[p.RID] = 0
		}
		c.collect()
	case "call", "auth", "new":
		var rr struct {
			RID *string `json:"rid"`
			resourceSet
		}
		// a resource response subscribes the resource; before protocol 1.2.0 only
		// for new requests (call and auth answered with the bare rid then)
		if json.Unmarshal(result, &rr) == nil && rr.RID != nil && (c.Proto >= 1002000 || p.Action == "new") {
			c.addResources(&rr.resourceSet)
			if e, isErrEntry := rr.Errors[*rr.RID]; isErrEntry && e != nil {
				// error in place of the resource: not counted, and ambiguous from now on
				if c.Ambiguous == nil {
					c.Ambiguous = map[string]bool{}
				}
				c.Ambiguous[*rr.RID] = true
			} else {
				c.Direct[*rr.RID]++
				if !c.Holds(*rr.RID) {
					c.issue("C02", "resource response %s does not contain the resource", *rr.RID)
				}
			}
			c.checkDangling("resource response " + *rr.RID)
			c.collect()
		}
	}
}

func (c *RefClient) event(name string, data json.RawMessage) {
	i := strings.LastIndexByte(name, '.')
	if i < 0 {
		c.issue("C02", "malformed event name %q", name)
		return
	}
	rid, ev := name[:i], name[i+1:]
	if _, ok := c.Store[rid]; !ok {
		// event names may contain dots: prefer the longest held rid that prefixes the name
		best := ""
		for k := range c.Store {
			if strings.HasPrefix(name, k+".") && len(k) > len(best) {
				best = k
			}
		}
		if best != "" {
			rid, ev = best, name[len(best)+1:]
		}
	}
	res := c.Store[rid]
	ce := ClientEvent{RID: rid, Event: ev, Data: data, Frame: c.nframes, At: c.curAt, Held: res != nil}
	var sq struct {
		Seq int `json:"seq"`
	}
	json.Unmarshal(data, &sq)
	ce.Seq = sq.Seq
	defer func() { c.EventLog = append(c.EventLog, ce) }()

	if ev == "unsubscribe" {
		if c.Direct[rid] <= 0 {
			c.issue("C02", "unsubscribe event for %s without direct subscription", rid)
		}
		c.Direct[rid] = 0
		c.collect()
		return
	}
	if res == nil {
		if _, ok := c.ByGet[rid]; ok {
			c.issue("C02", "%s event for %s, whose data the client only received through a get response (no subscription)", ev, rid)
		} else {
			c.issue("C02", "%s event for %s which the client does not hold", ev, rid)
		}
		return
	}
	if res.Deleted {
		c.issue("C02", "%s event for %s after its delete event", ev, rid)
	}
	switch ev {
	case "change":
		if res.Kind != "model" {
			c.issue("C02", "change event on %s %s", res.Kind, rid)
			return
		}
		var d struct {
			Values map[string]json.RawMessage `json:"values"`
			resourceSet
		}
		if err := json.Unmarshal(data, &d); err != nil || d.Values == nil {
			c.issue("C02", "malformed change event on %s: %s", rid, data)
			return
		}
		c.addResources(&d.resourceSet)
		nm := make(map[string]json.RawMessage, len(res.M))
		for k, v := range res.M {
			nm[k] = v
		}
		for k, v := range d.Values {
			if isDeleteAction(v) {
				delete(nm, k)
			} else {
				nm[k] = v
			}
		}
		res.M = nm
		c.checkDangling("change event on " + rid)
		c.collect()
	case "add":
		if res.Kind != "collection" {
			c.issue("C02", "add event on %s %s", res.Kind, rid)
			return
		}
		var d struct {
			Idx   *int            `json:"idx"`
			Value json.RawMessage `json:"value"`
			resourceSet
		}
		if err := json.Unmarshal(data, &d); err != nil || d.Idx == nil {
			c.issue("C02", "malformed add event on %s: %s", rid, data)
			return
		}
		if *d.Idx < 0 || *d.Idx > len(res.C) {
			c.issue("C02", "add event on %s with idx %d outside 0..%d", rid, *d.Idx, len(res.C))
			return
		}
		c.addResources(&d.resourceSet)
		nc := make([]json.RawMessage, 0, len(res.C)+1)
		nc = append(nc, res.C[:*d.Idx]...)
		nc = append(nc, d.Value)
		nc = append(nc, res.C[*d.Idx:]...)
		res.C = nc
		c.checkDangling("add event on " + rid)
		c.collect()
	case "remove":
		if res.Kind != "collection" {
			c.issue("C02", "remove event on %s %s", res.Kind, rid)
			return
		}
		var d struct {
			Idx *int `json:"idx"`
		}
		if err := json.Unmarshal(data, &d); err != nil || d.Idx == nil {
			c.issue("C02", "malformed remove event on %s: %s", rid, data)
			return
		}
		if *d.Idx < 0 || *d.Idx >= len(res.C) {
			c.issue("C02", "remove event on %s with idx %d outside 0..%d", rid, *d.Idx, len(res.C)-1)
			return
		}
		nc := make([]json.RawMessage, 0, len(res.C))
		nc = append(nc, res.C[:*d.Idx]...)
		nc = append(nc, res.C[*d.Idx+1:]...)
		res.C = nc
		c.collect()
	case "delete":
		res.Deleted = true
	default:
		// custom event: no state
	}
	if ce.Seq > 0 {
		res.Seqs = append(res.Seqs, ce.Seq)
	}
}

func isDeleteAction(v json.RawMessage) bool {
	if len(v) == 0 || v[0] != '{' {
		return false
	}
	var o struct {
		Action string `json:"action"`
	}
	return json.Unmarshal(v, &o) == nil && o.Action == "delete"
}

// CanonJSON returns a canonical encoding of a JSON value (sorted keys).
func CanonJSON(raw []byte) string {
	var v interface{}
	d := json.NewDecoder(bytes.NewReader(raw))
	d.UseNumber()
	if err := d.Decode(&v); err != nil {
		return "!" + string(raw)
	}
	b, _ := json.Marshal(v)
	return string(b)
}

// WireValue converts a service wire value to what a client of protocol
// version proto receives.
func WireValue(v string, proto int) string {
	if proto >= 1002001 || len(v) == 0 || v[0] != '{' {
		return v
	}
	var o struct {
		RID  *string          `json:"rid"`
		Soft bool             `json:"soft"`
		Data *json.RawMessage `json:"data"`
	}
	if json.Unmarshal([]byte(v), &o) != nil {
		return v
	}
	if o.RID != nil && o.Soft {
		b, _ := json.Marshal(*o.RID)
		return string(b)
	}
	if o.Data != nil {
		return `"[Data]"`
	}
	return v
}
