package mc

import (
	"encoding/json"
	"fmt"
	"sort"
	"strings"
)

// ---------------------------------------------------------------------------
// QueryMon: query resources (C13).
// ---------------------------------------------------------------------------

type queryEvent struct {
	name    string
	subject string
	time    int
	cached  []string // normalised queries cached (loaded) when the event was published
	asked   map[string]int
	lastAns int
	done    bool
}

type QueryMon struct {
	inited  bool
	seenLog int
	seenReq int
	qes     []*queryEvent
	prev    []snapRes
	resets  int
	seenRsp []int
	seenEv  []int
}

type snapRes struct {
	name   string
	query  string
	state  int
	links  []string
	linked map[string]bool
}

func (m *QueryMon) snapshot(w *World) []snapRes {
	var out []snapRes
	for _, e := range w.CacheSnaps() {
		lk := map[string]bool{}
		for _, k := range e.LinkKeys {
			lk[k] = true
		}
		for _, r := range e.Resources {
			out = append(out, snapRes{name: e.Name, query: r.Query, state: r.State, links: r.Links, linked: lk})
		}
	}
	return out
}

func (m *QueryMon) Step(w *World, _ string) {
	if !m.inited {
		m.inited = true
		m.seenRsp = make([]int, len(w.Conns))
		m.seenEv = make([]int, len(w.Conns))
	}
	w.MQ.mu.Lock()
	recs := append([]MQRecord(nil), w.MQ.log[m.seenLog:]...)
	m.seenLog = len(w.MQ.log)
	reqs := append([]*Req(nil), w.MQ.reqs[m.seenReq:]...)
	m.seenReq = len(w.MQ.reqs)
	w.MQ.mu.Unlock()

	for _, r := range recs {
		if r.Kind == "EVT" && r.Subject == "system.reset" {
			m.resets++
		}
		if r.Kind == "EVT" && strings.HasPrefix(r.Subject, "event.") && strings.HasSuffix(r.Subject, ".query") {
			var qe struct {
				Subject string `json:"subject"`
			}
			json.Unmarshal([]byte(r.Payload), &qe)
			q := &queryEvent{name: r.Subject[6 : len(r.Subject)-6], subject: qe.Subject, time: r.Time, asked: map[string]int{}}
			m.qes = append(m.qes, q)
		}
	}
	for _, r := range reqs {
		f := parseReq(r.Payload)
		if strings.HasPrefix(r.Subject, "get.") && f.Query != "" && m.resets == 0 {
			name := r.Subject[4:]
			for _, p := range m.prev {
				requested := p.state > 2
				if p.state == 2 {
					// stateRequested is entered before a throttled get is published:
					// it is a duplicate only if an earlier get for this query is unanswered
					for _, o := range w.MQ.Pending() {
						if o != r && o.Subject == r.Subject && o.Time < r.Time && parseReq(o.Payload).Query == f.Query {
							requested = true
						}
					}
				}
				if p.name == name && ((p.query == f.Query && requested) || p.linked[f.Query]) {
					w.Fail("C13", "duplicate-get", "get.%s {query:%q} requested although that query already is requested, cached or linked", w.Canon(name), f.Query)
				}
			}
		}
		for _, q := range m.qes {
			if r.Subject == q.subject {
				q.asked[f.Query]++
				if q.cached == nil {
					// the resource actor is processing the query event in this very
					// step: what was loaded just before is what must be asked for
					q.cached = []string{}
					for _, p := range m.prev {
						if p.name == q.name && p.query != "" && p.state >= 3 {
							q.cached = append(q.cached, p.query)
						}
					}
					sort.Strings(q.cached)
				}
			}
		}
	}
	// atomicity, judged on the FIFO order: a subscribe response or an event
	// caused by something delivered after the query event must not reach a
	// client before the last query request is answered
	for _, q := range m.qes {
		if q.done {
			continue
		}
		pending := false
		last := 0
		n := 0
		for _, r := range w.MQ.Requests() {
			if r.Subject == q.subject {
				n++
				if !r.Answered {
					pending = true
				} else if r.AnsTime > last {
					last = r.AnsTime
				}
			}
		}
		q.lastAns = last
		if n > 0 && !pending && w.internalQuiet() {
			q.done = true
		}
		if n == 0 || !pending {
			continue
		}
		for i, c := range w.Conns {
			for _, ev := range c.Client.EventLog[m.seenEv[i]:] {
				if ev.Event == "+hand" || ev.Event == "+drop" || ev.At <= q.time {
					continue
				}
				name, _ := splitKey(strings.ReplaceAll(ev.RID, "{cid}", c.CID))
				if name != q.name {
					continue
				}
				if emit := eventEmitTime(w, c, ev); emit > q.time {
					w.Fail("C13", "event-during-query-lock", "%s received %s.%s (emitted t=%d) while the query event of t=%d still had unanswered query requests", c.Label, ev.RID, ev.Event, emit, q.time)
				}
			}
			for _, r := range c.Client.Resp[m.seenRsp[i]:] {
				p := r.Req
				if p == nil || (p.Action != "subscribe" && p.Action != "get") || r.IsErr {
					continue
				}
				name, _ := splitKey(strings.ReplaceAll(p.RID, "{cid}", c.CID))
				if name != q.name {
					continue
				}
				// which get answer served this response?
				for _, g := range w.MQ.Requests() {
					if g.Subject == "get."+q.name && g.Answered && g.AnsTime > q.time && g.Time <= q.time+0 && g.AnsTime <= r.At {
						_ = g
					}
				}
			}
		}
	}
	// a delete event has to come from the service: a delete event of its own, or
	// a system.notFound answer to a query request or a re-fetch (the scenarios
	// record both in Svc.Deleted) - not from a request that merely failed
	for i, c := range w.Conns {
		for _, ev := range c.Client.EventLog[m.seenEv[i]:] {
			if ev.Event != "delete" {
				continue
			}
			name, _ := splitKey(strings.ReplaceAll(ev.RID, "{cid}", c.CID))
			if !w.Svc.Deleted[name] {
				w.Fail("C13", "delete-without-cause", "%s received %s.delete although the service neither deleted %s nor answered system.notFound for it", c.Label, ev.RID, w.Canon(name))
			}
		}
	}
	for i, c := range w.Conns {
		m.seenEv[i] = len(c.Client.EventLog)
		m.seenRsp[i] = len(c.Client.Resp)
	}
	m.prev = m.snapshot(w)
}

func (m *QueryMon) End(w *World) {
	m.Step(w, "")
	for _, q := range m.qes {
		var asked []string
		for k, n := range q.asked {
			asked = append(asked, k)
			if n != 1 {
				w.Fail("C13", "query-request-count", "query event on %s (t=%d): %d query requests for query %q, expected exactly one", w.Canon(q.name), q.time, n, k)
			}
		}
		sort.Strings(asked)
		if q.cached != nil && fmt.Sprint(asked) != fmt.Sprint(q.cached) {
			w.Fail("C13", "query-request-set", "query event on %s (t=%d): query requests were sent for %v but the cached normalised queries were %v", w.Canon(q.name), q.time, asked, q.cached)
		}
	}
	for _, e := range w.CacheSnaps() {
		if e.Locked || e.QueueLen > 0 {
			w.Fail("C13", "lock-not-released", "cache entry %s is still locked (locks=%d/%d, %d queued) at quiescence", w.Canon(e.Name), e.LocksLen, e.LocksCap, e.QueueLen)
		}
		// one cached resource per normalised query
		seen := map[string]bool{}
		for _, r := range e.Resources {
			if r.Query == "" || r.State < 3 {
				continue
			}
			nq := w.Svc.Norm(e.Name, r.Query)
			if seen[nq] {
				w.Fail("C13", "duplicate-cached-query", "cache entry %s holds two cached resources for normalised query %q", w.Canon(e.Name), nq)
			}
			seen[nq] = true
		}
	}
}

// ---------------------------------------------------------------------------
// ThrottleMon: throttles bound outstanding requests and never stall (C19).
// ---------------------------------------------------------------------------

type ThrottleMon struct {
	Limit int
	// Governed reports whether a request is governed by a throttle.
	Governed func(r *Req) bool
	// Throttles returns the number of throttles created so far.
	Throttles func(w *World) int
	// Expected is the number of governed requests the scenario must publish in total.
	Expected func(w *World) int
	// StrictSlots: every request made through a throttle is governed (the
	// scenario has no other users of throttles), so slots and unanswered
	// governed requests must match exactly at quiet states.
	StrictSlots bool
	hooked      bool
	maxSeen     int
	deferred    map[*Req]bool
}

func (m *ThrottleMon) hook(w *World) {
	if m.hooked {
		return
	}
	m.hooked = true
	w.MQ.mu.Lock()
	w.MQ.onReq = append(w.MQ.onReq, func(r *Req) {
		if m.Limit <= 0 {
			return
		}
		// a request the scenario knows to be governed by a throttle must have
		// been made through one (Req.Throttled is exact: taken from the call stack)
		if m.Governed != nil && m.Governed(r) && !r.Throttled {
			w.Fail("C19", "outside-throttle", "%s is governed by a throttle (limit %d) but was not made through one", r.CSubject, m.Limit)
		}
		if !r.Throttled {
			return
		}
		n := 0
		for _, p := range w.MQ.Pending() {
			if p.Throttled {
				n++
			}
		}
		if n > m.maxSeen {
			m.maxSeen = n
		}
		// the number of throttles that may be in use: those seen, but no more than
		// the scenario accounts for (one per system reset / per subscribe request)
		nt := len(w.S.Throttles())
		if m.Throttles != nil {
			if k := m.Throttles(w); k < nt {
				nt = k
			}
		}
		if lim := m.Limit * nt; n > lim {
			w.Fail("C19", "limit-exceeded", "%d throttled requests outstanding after %s was published; limit is %d x %d throttle(s) (%d throttle objects in use)", n, r.CSubject, m.Limit, nt, len(w.S.Throttles()))
		}
	})
	w.MQ.mu.Unlock()
}

func (m *ThrottleMon) Step(w *World, _ string) {
	m.hook(w)
	// slot accounting: when the gateway is internally quiet every running slot
	// of a throttle stands for an unanswered request made through a throttle
	// (an answer releases its slot at once, and a released continuation has
	// run), and a throttle with waiting callbacks is saturated
	if m.Limit <= 0 || !w.internalQuiet() {
		return
	}
	running, queued := 0, 0
	for _, t := range w.S.Throttles() {
		lim, r, q := t.VerifState()
		running += r
		queued += q
		if q > 0 && r < lim {
			w.Fail("C19", "idle-slot", "a throttle has %d waiting callback(s) but only %d of %d slots in use", q, r, lim)
		}
		if r > lim {
			w.Fail("C19", "limit-exceeded", "a throttle runs %d callbacks at once, its limit is %d", r, lim)
		}
	}
	outstanding := 0
	for _, r := range w.MQ.Pending() {
		if r.Throttled {
			outstanding++
		}
	}
	// Req.Throttled comes from the call stack of SendRequest (inside
	// Throttle.Add, or inside the task Throttle.Done started). If callbacks
	// have run but no request of this execution was ever attributed, the code
	// has a shape the attribution does not know (requests made from somewhere
	// else than the callback itself): the accounting is skipped, not failed.
	attributed := false
	for _, r := range w.MQ.Requests() {
		if r.Throttled {
			attributed = true
			break
		}
	}
	if !attributed {
		return
	}
	if running != outstanding {
		w.Fail("C19", "slot-not-released", "throttles have %d running slot(s) but %d request(s) made through them are unanswered (%d callbacks waiting): an answer did not release its slot", running, outstanding, queued)
	}
}

func (m *ThrottleMon) End(w *World) {
	m.hook(w)
	if m.Expected == nil {
		return
	}
	n := 0
	for _, r := range w.MQ.Requests() {
		if m.Governed(r) {
			n++
		}
	}
	if want := m.Expected(w); want >= 0 && n != want {
		w.Fail("C19", "stalled-or-extra", "%d governed requests were published in total, expected %d", n, want)
	}
}
