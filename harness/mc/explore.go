package mc

import (
	"fmt"
	"os"
	"strings"
)

// Point is one choice point of an execution.
type Point struct {
	Enabled []string
	Chosen  int
}

// Exec is the record of one execution.
type Exec struct {
	Points    []Point
	Choices   []string
	Viol      []Violation
	Digest    string
	Diverged  bool
	DivergeAt int
	Hung      bool
	Truncated bool
	Frames    map[string][]string
	MQLog     []MQRecord
	Closures  int
}

// RunOpts controls a single execution.
type RunOpts struct {
	KeepTrace bool // keep frames and MQ log in the result
	OnStart   func(prefix []string)
	// Free runs the scenario with the scheduler detached (workers and go
	// statements run freely): used by the race pass, where the cooperative
	// hand-offs must not hide unsynchronised accesses.
	Free bool
}

// RunOnce executes the scenario on a fresh gateway: the prefix is replayed by
// action name, afterwards the default (first enabled) action is taken until
// nothing is enabled; then the end-of-run monitors are evaluated.
func RunOnce(sc *Scenario, prefix []string, opt RunOpts) *Exec {
	var w *World
	if opt.Free {
		w = newWorld(sc, true)
	} else {
		w = NewWorld(sc)
	}
	x := &Exec{}
	max := sc.MaxPoints
	if max == 0 {
		max = 600
	}
	for {
		if w.Hung {
			x.Hung = true
			break
		}
		en := w.Enabled()
		if len(en) == 0 {
			break
		}
		if len(x.Points) >= max {
			x.Truncated = true
			break
		}
		idx := 0
		i := len(x.Points)
		if i < len(prefix) {
			idx = -1
			for k, a := range en {
				if a.Name == prefix[i] {
					idx = k
					break
				}
			}
			if idx < 0 {
				x.Diverged = true
				x.DivergeAt = i
				break
			}
		}
		names := make([]string, len(en))
		for k, a := range en {
			names[k] = a.Name
		}
		x.Points = append(x.Points, Point{names, idx})
		x.Choices = append(x.Choices, names[idx])
		w.Do(en[idx])
	}
	if w.Hung {
		x.Hung = true
		w.Fail("*", "hang", "a closure did not return within %s after %v", HangTimeout, lastN(w.Trace, 3))
	}
	if !x.Diverged && !x.Truncated && !x.Hung {
		w.End()
	}
	x.Viol = w.Viol
	x.Digest = w.Digest()
	x.Closures = w.S.closures
	if opt.KeepTrace {
		x.Frames = map[string][]string{}
		for _, c := range w.Conns {
			for _, f := range c.Frames {
				x.Frames[c.Label] = append(x.Frames[c.Label], w.Canon(string(f)))
			}
		}
		for _, h := range w.HTTPs {
			x.Frames[h.Label] = append(x.Frames[h.Label], fmt.Sprintf("%s %s -> %d %s", h.Req.Method, h.Req.URL, h.Rec.Code, w.Canon(h.Rec.Body.String())))
		}
		x.MQLog = w.MQ.Log()
	}
	w.Close()
	return x
}

func lastN(s []string, n int) []string {
	if len(s) > n {
		return s[len(s)-n:]
	}
	return s
}

// Found is a violation together with the schedule that produced it.
type Found struct {
	Scenario string
	Schedule []string
	Devs     int
	V        Violation
}

// Stats accumulates the coverage of a search.
type Stats struct {
	Executions   int
	Points       int // choice points visited beyond replayed prefixes (tree nodes)
	Transitions  int // actions executed beyond replayed prefixes (tree edges)
	Closures     int // gated closures of real gateway code executed
	Diverged     int
	Truncated    int
	ReplayChecks int
	ReplayDiffs  int
	MaxLen       int
	Digests      map[string]int
	Found        []Found
	Samples      [][]string
	Complete     bool
	// Why lists (a few of) the reasons for Complete being false.
	Why []string
}

func NewStats() *Stats { return &Stats{Digests: map[string]int{}, Complete: true} }

// Merge adds o into s.
func (s *Stats) Merge(o *Stats) {
	s.Executions += o.Executions
	s.Points += o.Points
	s.Transitions += o.Transitions
	s.Closures += o.Closures
	s.Diverged += o.Diverged
	s.Truncated += o.Truncated
	s.ReplayChecks += o.ReplayChecks
	s.ReplayDiffs += o.ReplayDiffs
	if o.MaxLen > s.MaxLen {
		s.MaxLen = o.MaxLen
	}
	for k, v := range o.Digests {
		s.Digests[k] += v
	}
	s.Found = append(s.Found, o.Found...)
	if len(s.Samples) < 6 {
		s.Samples = append(s.Samples, o.Samples...)
	}
	if !o.Complete {
		s.Complete = false
	}
	for _, y := range o.Why {
		if len(s.Why) < 4 {
			s.Why = append(s.Why, y)
		}
	}
}

// Explorer is the deviation-bounded depth-first schedule search (Mode S).
type Explorer struct {
	Sc        *Scenario
	Bound     int // maximum number of deviations; <0 = unbounded
	Stats     *Stats
	CurFile   *os.File // if set, the schedule about to run is written here (crash attribution)
	Budget    int      // maximum number of executions (0 = unlimited)
	MaxFound  int
	Filter    func(v *Violation) bool
	seenSig   map[string]int
	ReplayMod int // every ReplayMod-th execution is run twice and digests compared
}

func (e *Explorer) note(prefix []string) {
	if e.CurFile != nil {
		b := []byte(e.Sc.Name + "\n" + strings.Join(prefix, "\n") + "\n")
		e.CurFile.Truncate(0)
		e.CurFile.WriteAt(b, 0)
	}
}

// Explore runs the subtree below prefix, which already contains devs deviations.
func (e *Explorer) Explore(prefix []string, devs int) {
	if e.seenSig == nil {
		e.seenSig = map[string]int{}
	}
	if (e.Budget > 0 && e.Stats.Executions >= e.Budget) || Tainted {
		e.Stats.Complete = false
		if len(e.Stats.Why) < 4 {
			e.Stats.Why = append(e.Stats.Why, fmt.Sprintf("execution budget %d reached or worker tainted (%v)", e.Budget, Tainted))
		}
		return
	}
	e.note(prefix)
	x := RunOnce(e.Sc, prefix, RunOpts{})
	st := e.Stats
	st.Executions++
	st.Closures += x.Closures
	if x.Diverged {
		// map-order dependent enabledness: retry a few times
		ok := false
		for i := 0; i < 4 && !ok; i++ {
			x = RunOnce(e.Sc, prefix, RunOpts{})
			ok = !x.Diverged
		}
		if !ok {
			st.Diverged++
			st.Complete = false
			if len(st.Why) < 4 {
				st.Why = append(st.Why, fmt.Sprintf("replay diverged at action %d of prefix %v", x.DivergeAt, prefix))
			}
			return
		}
	}
	if x.Truncated {
		st.Truncated++
		st.Complete = false
		if len(st.Why) < 4 {
			st.Why = append(st.Why, fmt.Sprintf("execution cut at %d actions, prefix %v", len(x.Points), prefix))
		}
	}
	n := len(x.Points)
	if n > st.MaxLen {
		st.MaxLen = n
	}
	st.Points += n - len(prefix) + 1
	st.Transitions += n - len(prefix)
	st.Digests[x.Digest]++
	if len(st.Samples) < 3 && (devs > 0 || len(prefix) == 0) {
		st.Samples = append(st.Samples, append([]string(nil), x.Choices...))
	}
	if e.ReplayMod > 0 && st.Executions%e.ReplayMod == 0 {
		y := RunOnce(e.Sc, x.Choices, RunOpts{})
		st.ReplayChecks++
		if y.Digest != x.Digest || y.Diverged {
			st.ReplayDiffs++
		}
	}
	for _, v := range x.Viol {
		if e.Filter != nil && !e.Filter(&v) {
			continue
		}
		sig := v.Prop + "|" + v.Kind
		f := Found{Scenario: e.Sc.Name, Schedule: append([]string(nil), x.Choices...), Devs: devs, V: v}
		if k, ok := e.seenSig[sig]; ok {
			if o := st.Found[k]; devs < o.Devs || (devs == o.Devs && len(f.Schedule) < len(o.Schedule)) {
				st.Found[k] = f
			}
			continue
		}
		e.seenSig[sig] = len(st.Found)
		st.Found = append(st.Found, f)
	}
	if e.Bound >= 0 && devs+1 > e.Bound {
		return
	}
	for i := len(prefix); i < n; i++ {
		p := x.Points[i]
		for alt := 1; alt < len(p.Enabled); alt++ {
			np := make([]string, i+1)
			copy(np, x.Choices[:i])
			np[i] = p.Enabled[alt]
			e.Explore(np, devs+1)
		}
	}
}

// Level1 returns the work items below the default execution: every prefix
// with exactly one deviation. It also accounts the default execution.
func (e *Explorer) Level1() [][]string {
	e.note(nil)
	x := RunOnce(e.Sc, nil, RunOpts{})
	var items [][]string
	if e.Bound == 0 {
		return nil
	}
	for i := 0; i < len(x.Points); i++ {
		p := x.Points[i]
		for alt := 1; alt < len(p.Enabled); alt++ {
			np := make([]string, i+1)
			copy(np, x.Choices[:i])
			np[i] = p.Enabled[alt]
			items = append(items, np)
		}
	}
	return items
}
