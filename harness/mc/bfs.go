package mc

import (
	"os"
	"crypto/sha256"
	"encoding/json"
	"encoding/hex"
	"fmt"
	"sort"
	"strings"
)

// MAct is one environment action of a Mode M alphabet.
type MAct struct {
	Name string
	Do   func(w *World)
}

// MSpec is a Mode M (explicit-state, breadth-first) exploration: the
// transitions are environment actions - client requests, answers with every
// outcome of the menu, service events, eviction timer phases, disconnects -
// each followed by a run to internal quiescence (all worker closures and
// captured go statements, in the fixed default order). States are compared
// by a canonical snapshot of the gateway, the pending requests and the two
// peer models; a successor is built by replaying its path on a fresh gateway.
type MSpec struct {
	Name     string
	Scenario *Scenario // configuration, Init, Menu, Monitors; Conns without scripts
	// Alphabet returns the client/service actions enabled in the current state.
	Alphabet func(w *World) []MAct
	MaxDepth map[string]int
}

// MSucc is one explored transition.
type MSucc struct {
	Action string
	Key    string
	Viol   []Violation // step violations on the transition and drain-probe violations of the successor
	Final  bool        // no action enabled in the successor
}

// internal runs worker closures and tasks until none is runnable.
func (w *World) internal(max int) bool {
	for i := 0; i < max; i++ {
		if w.Hung {
			return false
		}
		var next *Action
		for _, a := range w.Enabled() {
			if strings.HasPrefix(a.Name, "step:") || strings.HasPrefix(a.Name, "task:") {
				a := a
				next = &a
				break
			}
		}
		if next == nil {
			return true
		}
		w.Do(*next)
	}
	return false
}

// envActions lists the Mode M transitions enabled in the current state.
func (s *MSpec) envActions(w *World) []Action {
	var out []Action
	for _, a := range w.Enabled() {
		if strings.HasPrefix(a.Name, "ans:") || strings.HasPrefix(a.Name, "evict-") {
			out = append(out, a)
		}
	}
	for _, m := range s.Alphabet(w) {
		m := m
		out = append(out, Action{Name: "env:" + m.Name, do: func() { m.Do(w) }})
	}
	return out
}

// StateKey is the canonical hash of the current (internally quiescent) state.
func (w *World) StateKey() string {
	var b strings.Builder
	for _, cs := range w.ConnSnaps() {
		fmt.Fprintf(&b, "conn %s tok=%s tid=%s disp=%v proto=%d\n", w.label(cs.CID), cs.Token, cs.TID, cs.Disposing, cs.Protocol)
		for _, s := range cs.Subs {
			var refs []string
			for k, n := range s.Refs {
				refs = append(refs, fmt.Sprintf("%s*%d", k, n))
			}
			sort.Strings(refs)
			fmt.Fprintf(&b, " sub %s st=%d d=%d i=%d is=%d acc=%v qf=%d fl=%d eq=%d rcb=%d acb=%d res=%v err=%s refs=%v\n",
				w.Canon(s.RID), s.State, s.Direct, s.Indirect, s.IndirectSent, s.HasAccess, s.QueueFlag, s.Flags, s.EventQueue, s.ReadyCBs, s.AccessCBs, s.HasResource, s.Err, refs)
		}
	}
	for _, e := range w.CacheSnaps() {
		inQ := w.TQ != nil && w.TQ.VerifContains(e.Ref)
		fmt.Fprintf(&b, "entry %s count=%d mq=%v q=%d locked=%v inq=%v links=%v\n", w.Canon(e.Name), e.Count, e.HasMQSub, e.QueueLen, e.Locked, inQ, e.LinkKeys)
		for _, r := range e.Resources {
			fmt.Fprintf(&b, " rs q=%s st=%d reset=%v subs=%d val=%s err=%s\n", r.Query, r.State, r.Resetting, len(r.Subs), CanonJSON([]byte(r.Value)), r.Err)
		}
	}
	for _, v := range w.popped {
		fmt.Fprintf(&b, "popped %v\n", w.Canon(fmt.Sprint(v == nil)))
	}
	fmt.Fprintf(&b, "popped=%d\n", len(w.popped))
	var pend []string
	for _, r := range w.MQ.Pending() {
		pend = append(pend, r.CSubject+" "+r.CPayload)
	}
	sort.Strings(pend)
	fmt.Fprintf(&b, "pending %v\n", pend)
	var subs []string
	for _, s := range w.MQ.ActiveSubs() {
		subs = append(subs, w.Canon(s.Namespace))
	}
	sort.Strings(subs)
	fmt.Fprintf(&b, "mqsubs %v\n", subs)
	for _, c := range w.Conns {
		var d []string
		for rid, n := range c.Client.Direct {
			if n > 0 {
				d = append(d, fmt.Sprintf("%s=%d", rid, n))
			}
		}
		sort.Strings(d)
		var st []string
		for rid, r := range c.Client.Store {
			// the client's copy is part of the state: two states that differ
			// only in a (stale) client copy have different futures for C01
			mb, _ := json.Marshal(r.M)
			cb, _ := json.Marshal(r.C)
			st = append(st, rid+":"+r.Kind+fmt.Sprint(r.Deleted)+":"+r.Err+":"+CanonJSON(mb)+CanonJSON(cb))
		}
		sort.Strings(st)
		var p []string
		for _, q := range c.Client.Pending {
			p = append(p, q.Method)
		}
		sort.Strings(p)
		fmt.Fprintf(&b, "client %s closed=%v direct=%v store=%v pending=%v\n", c.Label, c.Disposed, d, st, p)
	}
	var keys []string
	for k, r := range w.Svc.Res {
		keys = append(keys, fmt.Sprintf("%s gone=%v dirty=%v m=%s c=%s", k, r.Gone, r.Dirty, jsonModel(r.M), jsonColl(r.C)))
	}
	sort.Strings(keys)
	fmt.Fprintf(&b, "svc %v\n", keys)
	for k, v := range w.Data {
		if s, ok := v.(string); ok {
			fmt.Fprintf(&b, "data %s=%s\n", k, s)
		}
	}
	h := sha256.Sum256([]byte(b.String()))
	return hex.EncodeToString(h[:12])
}

// build replays a path (env action names) on a fresh world; after each action
// the gateway runs to internal quiescence.
func (s *MSpec) build(path []string) (*World, bool) {
	w := NewWorld(s.Scenario)
	if !w.internal(2000) {
		return w, false
	}
	for _, name := range path {
		var act *Action
		for _, a := range s.envActions(w) {
			if a.Name == name {
				a := a
				act = &a
				break
			}
		}
		if act == nil {
			return w, false
		}
		w.Do(*act)
		if !w.internal(2000) {
			return w, false
		}
	}
	return w, true
}

// Expand builds the state reached by path, and returns every successor with
// its state key and the violations met on the transition and in the drain
// probe of the successor. ok is false if the path could not be replayed.
func (s *MSpec) Expand(path []string, filter func(v *Violation) bool) (succ []MSucc, key string, ok bool, execs int) {
	w, ok := s.build(path)
	execs++
	if !ok {
		w.Close()
		return nil, "", false, execs
	}
	key = w.StateKey()
	var names []string
	for _, a := range s.envActions(w) {
		names = append(names, a.Name)
	}
	w.Close()
	for _, name := range names {
		np := append(append([]string(nil), path...), name)
		w2, ok2 := s.build(np)
		execs++
		ms := MSucc{Action: name}
		if !ok2 {
			if w2.Hung {
				ms.Viol = append(ms.Viol, Violation{Prop: "*", Kind: "hang", Msg: "a closure did not return"})
			}
			w2.Close()
			succ = append(succ, ms)
			continue
		}
		ms.Key = w2.StateKey()
		ms.Final = len(s.envActions(w2)) == 0
		// drain probe: default actions to full quiescence, then the end-of-run oracles
		if w2.Drain(3000) {
			w2.End()
		}
		for _, v := range w2.Viol {
			v := v
			if filter == nil || filter(&v) {
				ms.Viol = append(ms.Viol, v)
			}
		}
		w2.Close()
		succ = append(succ, ms)
	}
	return succ, key, true, execs
}

// TraceRun rebuilds the state reached by path, runs the drain probe and the
// end-of-run oracles, and prints every action executed (environment actions,
// worker closures, default answers) with the messaging traffic and the frames
// each connection received.
func (s *MSpec) TraceRun(path []string, out func(format string, a ...interface{})) {
	w, ok := s.build(path)
	if !ok {
		out("path could not be replayed\n")
	}
	mark := len(w.Trace)
	if ok && os.Getenv("VERIF_STATES") != "" {
		// drain by hand, printing the subscriptions of every connection after each action
		for i := 0; i < 3000; i++ {
			en := w.Enabled()
			if len(en) == 0 {
				break
			}
			w.Do(en[0])
			out("  [%d %s]", len(w.Trace), en[0].Name)
			for _, cs := range w.ConnSnaps() {
				for _, sb := range cs.Subs {
					out(" %s:st%d,d%d,i%d,is%d,q%d", sb.RID, sb.State, sb.Direct, sb.Indirect, sb.IndirectSent, sb.QueueFlag)
				}
			}
			out("\n")
		}
		w.End()
	} else if ok && w.Drain(3000) {
		w.End()
	}
	log := w.MQ.Log()
	for i, a := range w.Trace {
		if i == mark {
			out("      -- drain probe --\n")
		}
		out("%3d   %s\n", i+1, a)
		for _, r := range log {
			if r.Time == i+1 {
				out("        mq  %-5s %s %s\n", r.Kind, r.Subject, r.Payload)
			}
		}
	}
	for _, c := range w.Conns {
		for _, f := range c.Frames {
			out("  %s <- %s\n", c.Label, w.Canon(string(f)))
		}
	}
	for _, v := range w.Viol {
		out("VERDICT %s %s: %s\n", v.Prop, v.Kind, v.Msg)
	}
	w.Close()
}
