package mc

import (
	"encoding/json"
	"strings"

	"github.com/resgateio/resgate/server/rescache"
)

// ---------------------------------------------------------------------------
// AccessMon: read gating (C04), call gating and token currency (C05),
// revocation (C06).
// ---------------------------------------------------------------------------

type accAns struct {
	cid     string
	key     string // resource name + "?" + query as sent to the service
	reqTime int
	ansTime int // 0 while unanswered
	token   string
	grantG  bool
	call    string
	code    string // error code when not a result
	http    bool
}

type accTrig struct {
	kind    string // token, reaccess, reset
	cid     string // "" = every connection
	name    string // resource name ("" = every resource), or
	pats    []rescache.ResourcePattern
	time    int
	settled int // first internally quiet time after delivery (0 = not yet)
	token   string
	// direct subscriptions (cid + " " + rid) that existed just before the trigger
	direct map[string]bool
	// direct subscriptions the client knew of (successful responses) just before the trigger
	cdirect map[string]bool
	next    *accTrig // the next token trigger of the same connection
}

// answers reports whether access answer a can serve as the re-check that the
// trigger demands: requested after it with the token it set, or - for
// triggers that do not change the token - at least answered after it (the
// atomic service computes answers when they are delivered).
func (t *accTrig) answers(a *accAns) bool {
	if t.kind == "token" {
		// with the token it set, or with the token of a later token event
		// that had superseded it when the request was made
		for x := t; x != nil; x = x.next {
			if a.reqTime > x.time && a.token == x.token {
				return true
			}
		}
		return false
	}
	return a.reqTime > t.time || a.ansTime > t.time
}

type AccessMon struct {
	inited  bool
	seenLog int
	ans     []*accAns
	byReq   map[*Req]*accAns
	trigs   []*accTrig
	hadTok  map[string]bool
	lastTok map[string]string // last token delivered per cid
	prevTok map[string]string // snapshot token before the current step
	prevDir map[string]bool   // direct subscriptions before the current step
	prevCD  map[string]bool   // client-side direct subscriptions before the current step
	seenReq int
	seenRsp []int
	seenEv  []int
	seenH   int
}

func accKey(name, query string) string { return name + "?" + query }

func (m *AccessMon) init(w *World) {
	m.inited = true
	m.byReq = map[*Req]*accAns{}
	m.hadTok = map[string]bool{}
	m.lastTok = map[string]string{}
	m.prevTok = map[string]string{}
	m.prevDir = map[string]bool{}
	m.seenRsp = make([]int, len(w.Conns))
	m.seenEv = make([]int, len(w.Conns))
}

func (t *accTrig) applies(cid, key string) bool {
	if t.cid != "" && t.cid != cid {
		return false
	}
	name, _ := splitKey(key)
	switch t.kind {
	case "token":
		return true
	case "reaccess":
		return t.name == name
	case "reset":
		for _, p := range t.pats {
			if p.Match(name) {
				return true
			}
		}
	}
	return false
}

// valid reports whether answer a may still be used for a request made at time use.
func (m *AccessMon) valid(a *accAns, use int) (bool, *accTrig) {
	for _, t := range m.trigs {
		if !t.applies(a.cid, a.key) || t.settled == 0 || t.settled > use {
			continue
		}
		ref := a.ansTime
		if t.kind == "token" {
			ref = a.reqTime
		}
		if ref < t.time {
			return false, t
		}
	}
	return true, nil
}

// candidates returns the delivered access answers for (cid,key) that can be
// the verdict a client request made at time from and served at time t was
// decided on: all answers delivered by t, except those that had been
// superseded - by the answer to an access request made after they were
// delivered - before the client request was made. The decision of a request
// is placed anywhere in its lifetime (a verdict that is replaced while the
// request waits for the resource may be the one it was decided on), and
// several access requests of one connection for one resource can be in
// flight together (a call on an unsubscribed resource uses a subscription
// object of its own) without one answer superseding the other.
func (m *AccessMon) candidates(cid, key string, t, from int) []*accAns {
	var all, out []*accAns
	for _, a := range m.ans {
		if a.cid == cid && a.key == key && a.ansTime != 0 && a.ansTime <= t {
			all = append(all, a)
		}
	}
	for _, a := range all {
		sup := false
		for _, b := range all {
			if b != a && b.reqTime > a.ansTime && b.ansTime < from {
				sup = true
			}
		}
		if !sup {
			out = append(out, a)
		}
	}
	return out
}

// pick returns the candidate most favourable to the gateway: one that
// satisfies good and is valid for a request made at time use, else one that
// satisfies good, else the latest.
func (m *AccessMon) pick(cid, key string, t, use int, good func(a *accAns) bool) *accAns {
	var fallback, latest *accAns
	for _, a := range m.candidates(cid, key, t, use) {
		if latest == nil || a.ansTime > latest.ansTime {
			latest = a
		}
		if !good(a) {
			continue
		}
		if ok, _ := m.valid(a, use); ok {
			return a
		}
		fallback = a
	}
	if fallback != nil {
		return fallback
	}
	return latest
}

// latest returns the latest delivered access answer for (cid,key) not after time t.
func (m *AccessMon) latest(cid, key string, t int) *accAns {
	var best *accAns
	for _, a := range m.ans {
		if a.cid == cid && a.key == key && a.ansTime != 0 && a.ansTime <= t {
			if best == nil || a.ansTime > best.ansTime {
				best = a
			}
		}
	}
	return best
}

func connByCID(w *World, cid string) *Conn {
	for _, c := range w.Conns {
		if c.CID == cid {
			return c
		}
	}
	return nil
}

func callGranted(list, method string) bool {
	if list == "*" {
		return true
	}
	for _, x := range strings.Split(list, ",") {
		if x == method && x != "" {
			return true
		}
	}
	return false
}

func (m *AccessMon) Step(w *World, action string) {
	if !m.inited {
		m.init(w)
	}
	quiet := w.internalQuiet()
	snaps := w.ConnSnaps()
	curTok := map[string]string{}
	curDir := map[string]bool{}
	for _, cs := range snaps {
		curTok[cs.CID] = cs.Token
		for _, s := range cs.Subs {
			if s.Direct > 0 {
				curDir[cs.CID+" "+s.RID] = true
			}
		}
	}

	// --- messaging log: triggers, access requests/answers, call requests
	w.MQ.mu.Lock()
	recs := append([]MQRecord(nil), w.MQ.log[m.seenLog:]...)
	m.seenLog = len(w.MQ.log)
	reqs := append([]*Req(nil), w.MQ.reqs[m.seenReq:]...)
	m.seenReq = len(w.MQ.reqs)
	w.MQ.mu.Unlock()

	for _, r := range recs {
		if r.Kind != "EVT" {
			continue
		}
		switch {
		case strings.HasPrefix(r.Subject, "conn.") && strings.HasSuffix(r.Subject, ".token"):
			cid := r.Subject[5 : len(r.Subject)-6]
			var te struct {
				Token json.RawMessage `json:"token"`
			}
			json.Unmarshal([]byte(r.Payload), &te)
			tok := string(te.Token)
			if m.hadTok[cid] {
				nt := &accTrig{kind: "token", cid: cid, time: r.Time, token: tok, direct: m.prevDir, cdirect: m.prevCD}
				for i := len(m.trigs) - 1; i >= 0; i-- {
					if p := m.trigs[i]; p.kind == "token" && p.cid == cid {
						p.next = nt
						break
					}
				}
				m.trigs = append(m.trigs, nt)
			}
			m.hadTok[cid] = true
			m.lastTok[cid] = tok
		case strings.HasPrefix(r.Subject, "event.") && strings.HasSuffix(r.Subject, ".reaccess"):
			m.trigs = append(m.trigs, &accTrig{kind: "reaccess", name: r.Subject[6 : len(r.Subject)-9], time: r.Time, direct: m.prevDir, cdirect: m.prevCD})
		case r.Subject == "system.reset":
			var rs struct {
				Access []string `json:"access"`
			}
			json.Unmarshal([]byte(r.Payload), &rs)
			var pats []rescache.ResourcePattern
			for _, p := range rs.Access {
				if rp := rescache.ParseResourcePattern(p); rp.IsValid() {
					pats = append(pats, rp)
				}
			}
			if len(pats) > 0 {
				m.trigs = append(m.trigs, &accTrig{kind: "reset", pats: pats, time: r.Time, direct: m.prevDir, cdirect: m.prevCD})
			}
		}
	}
	if quiet {
		for _, t := range m.trigs {
			if t.settled == 0 && t.time <= w.time {
				t.settled = w.time
			}
		}
	}

	for _, r := range reqs {
		f := parseReq(r.Payload)
		typ := ""
		for _, p := range []string{"access.", "call.", "auth."} {
			if strings.HasPrefix(r.Subject, p) {
				typ = p
			}
		}
		if typ == "" {
			continue
		}
		// token currency and connection identity (C05 / C10)
		known := false
		for _, cid := range w.CIDs() {
			if cid == f.CID {
				known = true
			}
		}
		if !known {
			w.Fail("C10", "unknown-cid", "%s carries cid %q which is no connection's id", r.CSubject, f.CID)
			continue
		}
		tok := string(f.Token)
		if tok == "" {
			tok = "null"
		}
		norm := func(s string) string {
			if s == "" {
				return "null"
			}
			return s
		}
		if pt, ok := m.prevTok[f.CID]; ok || curTok[f.CID] != "" {
			if tok != norm(pt) && tok != norm(curTok[f.CID]) {
				w.Fail("C05", "stale-token", "%s for %s carries token %s but the connection's token is %s", r.CSubject, w.label(f.CID), tok, norm(curTok[f.CID]))
			}
		}
		switch typ {
		case "access.":
			a := &accAns{cid: f.CID, key: accKey(r.Subject[7:], f.Query), reqTime: r.Time, token: tok, http: f.IsHTTP}
			m.ans = append(m.ans, a)
			m.byReq[r] = a
		case "call.":
			rest := r.Subject[5:]
			i := strings.LastIndexByte(rest, '.')
			name, method := rest[:i], rest[i+1:]
			key := accKey(name, f.Query)
			// time at which the client made the request
			use := r.Time
			if c := connByCID(w, f.CID); c != nil {
				best := -1
				for _, p := range c.Client.Pending {
					pm := ""
					switch p.Action {
					case "call":
						pm = p.Method[strings.LastIndexByte(p.Method, '.')+1:]
					case "new":
						pm = "new"
					default:
						continue
					}
					// several identical calls may be outstanding and the forwarded
					// request does not tell which one it serves: judge by the oldest
					if pm == method && (best < 0 || p.SentAt < best) && p.SentAt <= r.Time {
						best = p.SentAt
					}
				}
				if best >= 0 {
					use = best
				}
			} else {
				for _, h := range w.HTTPs {
					if h.CID == f.CID {
						use = h.Start
					}
				}
			}
			a := m.pick(f.CID, key, r.Time, use, func(a *accAns) bool { return a.code == "" && callGranted(a.call, method) })
			switch {
			case a == nil:
				w.Fail("C05", "call-without-access", "%s was forwarded although no access answer for %s %s had been delivered", r.CSubject, w.label(f.CID), w.Canon(key))
			case a.code != "" || !callGranted(a.call, method):
				w.Fail("C05", "call-without-grant", "%s was forwarded although the latest access answer for %s grants call=%q (error %q)", r.CSubject, w.label(f.CID), a.call, a.code)
			default:
				if ok, t := m.valid(a, use); !ok {
					w.Fail("C05", "call-on-stale-verdict", "%s was forwarded on an access verdict obtained at t=%d, although a %s trigger reached the gateway at t=%d and had settled at t=%d, before the client request (t=%d)", r.CSubject, a.ansTime, t.kind, t.time, t.settled, use)
				}
			}
		}
	}
	// answers
	for r, a := range m.byReq {
		if a.ansTime == 0 && r.Answered {
			a.ansTime = r.AnsTime
			a.code, a.grantG, a.call = "", false, ""
			switch r.Outcome {
			case "timeout":
				a.code = "system.timeout"
			case "noresp":
				a.code = "system.notFound"
			case "subjectTooLong":
				a.code = "system.subjectTooLong"
			default:
				a.decode(w, r)
			}
			delete(m.byReq, r)
		}
	}

	// --- client frames: data responses (C04)
	for i, c := range w.Conns {
		rs := c.Client.Resp
		for _, rsp := range rs[m.seenRsp[i]:] {
			p := rsp.Req
			if p == nil {
				continue
			}
			switch p.Action {
			case "subscribe", "get":
				name, q := splitKey(strings.ReplaceAll(p.RID, "{cid}", c.CID))
				key := accKey(name, q)
				a := m.pick(c.CID, key, rsp.At, p.SentAt, func(a *accAns) bool { return a.grantG })
				if rsp.IsErr {
					continue
				}
				// a success answer needs a valid grant even when the resource set
				// is empty because the client already holds the resource
				switch {
				case a == nil:
					w.Fail("C04", "data-without-access", "%s: %s succeeded although no access answer for it was ever delivered", c.Label, p.Method)
				case !a.grantG:
					w.Fail("C04", "data-despite-denial", "%s: %s succeeded although the latest access answer is not a get grant (error %q)", c.Label, p.Method, a.code)
				default:
					if ok, t := m.valid(a, p.SentAt); !ok {
						w.Fail("C04", "data-on-stale-verdict", "%s: %s succeeded on an access verdict from t=%d although a %s trigger from t=%d had settled at t=%d, before the request (t=%d)", c.Label, p.Method, a.ansTime, t.kind, t.time, t.settled, p.SentAt)
					}
				}
			case "call", "auth", "new":
				if rsp.IsErr || c.Client.Proto < 1002000 {
					continue
				}
				var rr struct {
					RID *string `json:"rid"`
				}
				if json.Unmarshal(rsp.Result, &rr) != nil || rr.RID == nil || !resultHas(rsp.Result, *rr.RID) {
					continue
				}
				name, q := splitKey(strings.ReplaceAll(*rr.RID, "{cid}", c.CID))
				a := m.pick(c.CID, accKey(name, q), rsp.At, p.SentAt, func(a *accAns) bool { return a.grantG })
				if a == nil {
					w.Fail("C04", "data-without-access", "%s: resource response %s delivered with data although no access answer for it was ever delivered", c.Label, *rr.RID)
				} else if !a.grantG {
					w.Fail("C04", "data-despite-denial", "%s: resource response %s delivered with data although the latest access answer is not a get grant (error %q)", c.Label, *rr.RID, a.code)
				}
			}
		}
		// error responses must carry the access error when access was refused for this request
		for _, rsp := range rs[m.seenRsp[i]:] {
			p := rsp.Req
			if p == nil || (p.Action != "subscribe" && p.Action != "get") {
				continue
			}
			name, q := splitKey(strings.ReplaceAll(p.RID, "{cid}", c.CID))
			cands := m.candidates(c.CID, accKey(name, q), rsp.At, p.SentAt)
			if len(cands) != 1 {
				continue // no verdict, or several concurrent ones: which error applies is open
			}
			a := cands[0]
			if a.grantG || a.reqTime < p.SentAt {
				continue
			}
			want := a.code
			if want == "" {
				want = "system.accessDenied"
			}
			if !rsp.IsErr {
				continue // reported above
			}
			if rsp.Code != want {
				w.Fail("C04", "wrong-access-error", "%s: %s failed with %s but the access answer was %s", c.Label, p.Method, rsp.Code, want)
			}
		}
		m.seenRsp[i] = len(rs)
	}
	// HTTP GET bodies
	for _, h := range w.HTTPs[m.seenH:] {
		if !h.Done {
			break
		}
		m.seenH++
		if (h.Req.Method != "GET" && h.Req.Method != "HEAD") || h.Rec.Code != 200 || h.CID == "-" {
			continue
		}
		var best *accAns
		for _, a := range m.ans {
			if a.cid == h.CID && a.ansTime != 0 {
				best = a
			}
		}
		if best == nil {
			w.Fail("C04", "data-without-access", "%s: HTTP GET %s answered 200 although no access answer was delivered", h.Label, h.Req.URL)
		} else if !best.grantG {
			w.Fail("C04", "data-despite-denial", "%s: HTTP GET %s answered 200 although access was not granted (error %q)", h.Label, h.Req.URL, best.code)
		}
	}

	m.prevTok = curTok
	m.prevDir = curDir
	cd := map[string]bool{}
	for _, c := range w.Conns {
		for rid, n := range c.Client.Direct {
			if n > 0 {
				cd[c.CID+" "+rid] = true
			}
		}
	}
	m.prevCD = cd
}

func (a *accAns) decode(w *World, r *Req) {
	// the delivered payload is in the log; decode the last ANS record of this request
	w.MQ.mu.Lock()
	var payload string
	for i := len(w.MQ.log) - 1; i >= 0; i-- {
		l := w.MQ.log[i]
		if l.Kind == "ANS" && l.Subject == r.Subject && l.Time == r.AnsTime {
			payload = l.Payload
			break
		}
	}
	w.MQ.mu.Unlock()
	var resp struct {
		Result *struct {
			Get  bool   `json:"get"`
			Call string `json:"call"`
		} `json:"result"`
		Error *struct {
			Code string `json:"code"`
		} `json:"error"`
	}
	if err := json.Unmarshal([]byte(payload), &resp); err != nil {
		a.code = "system.internalError"
		return
	}
	switch {
	case resp.Error != nil:
		a.code = resp.Error.Code
		if a.code == "" {
			a.code = "system.internalError"
		}
	case resp.Result != nil:
		a.grantG = resp.Result.Get
		a.call = resp.Result.Call
	default:
		a.code = "system.internalError" // missing result
	}
}

// resultHas reports whether a result's resource set holds data for rid.
func resultHas(result json.RawMessage, rid string) bool {
	var rs struct {
		Models      map[string]json.RawMessage `json:"models"`
		Collections map[string]json.RawMessage `json:"collections"`
	}
	if json.Unmarshal(result, &rs) != nil {
		return false
	}
	_, a := rs.Models[rid]
	_, b := rs.Collections[rid]
	return a || b
}

func (m *AccessMon) End(w *World) {
	m.Step(w, "")
	// C06 (a): every trigger that hit a direct subscription which still exists
	// was followed by an access request carrying the token current after it.
	snaps := w.ConnSnaps()
	for _, t := range m.trigs {
		for _, cs := range snaps {
			if t.cid != "" && t.cid != cs.CID {
				continue
			}
			for _, s := range cs.Subs {
				if s.Direct == 0 || !t.direct[cs.CID+" "+s.RID] {
					continue
				}
				name, q := splitKey(strings.ReplaceAll(s.RID, "{cid}", cs.CID))
				key := accKey(name, q)
				if !t.applies(cs.CID, key) {
					continue
				}
				ok := false
				for _, a := range m.ans {
					if a.cid == cs.CID && a.key == key && t.answers(a) {
						ok = true
					}
				}
				if !ok {
					w.Fail("C06", "no-reaccess", "%s trigger at t=%d: %s is still directly subscribed to %s but no access request followed the trigger", t.kind, t.time, w.label(cs.CID), s.RID)
				}
			}
		}
	}
	// C06 (b): a re-check that is not a get grant removes the direct subscriptions
	for _, a := range m.ans {
		if a.ansTime == 0 || a.grantG {
			continue
		}
		c := connByCID(w, a.cid)
		if c == nil || c.Disposed {
			continue
		}
		// was this a re-check (request sent after some trigger applying to it)?
		re := false
		for _, t := range m.trigs {
			if t.applies(a.cid, a.key) && t.time < a.reqTime {
				re = true
			}
		}
		if !re {
			continue
		}
		// any later grant or client subscribe makes the end state ambiguous
		later := false
		for _, b := range m.ans {
			if b != a && b.cid == a.cid && b.key == a.key && (b.reqTime > a.ansTime || b.ansTime > a.ansTime) {
				later = true // requested or (the service answers at delivery) answered later
			}
			// an access request in flight together with this one was granted:
			// neither verdict supersedes the other
			if b != a && b.cid == a.cid && b.key == a.key && b.ansTime != 0 && b.grantG && b.reqTime < a.ansTime && a.reqTime < b.ansTime {
				later = true
			}
		}
		if later {
			continue
		}
		for _, cs := range snaps {
			if cs.CID != a.cid {
				continue
			}
			for _, s := range cs.Subs {
				name, q := splitKey(strings.ReplaceAll(s.RID, "{cid}", cs.CID))
				if accKey(name, q) == a.key && s.Direct > 0 {
					w.Fail("C06", "not-revoked", "%s keeps %d direct subscription(s) on %s although the re-check at t=%d answered %q", c.Label, s.Direct, s.RID, a.ansTime, a.code)
				}
			}
		}
	}
	// C06 (c): nothing emitted after a trigger is delivered before the verdict
	for _, t := range m.trigs {
		for _, c := range w.Conns {
			if t.cid != "" && t.cid != c.CID {
				continue
			}
			for _, ev := range c.Client.EventLog {
				if ev.Event == "+hand" || ev.Event == "+drop" || ev.Event == "unsubscribe" || ev.At <= t.time {
					continue
				}
				if !(t.cdirect[c.CID+" "+ev.RID] || t.direct[c.CID+" "+ev.RID]) || c.Client.EverRef[ev.RID] {
					continue // not directly subscribed, or (also) held indirectly at some point
				}
				name, q := splitKey(strings.ReplaceAll(ev.RID, "{cid}", c.CID))
				key := accKey(name, q)
				if !t.applies(c.CID, key) {
					continue
				}
				// emission time of this event
				emit := eventEmitTime(w, c, ev)
				if emit == 0 || emit <= t.time {
					continue
				}
				// first verdict requested after the trigger
				var v *accAns
				for _, a := range m.ans {
					if a.cid == c.CID && a.key == key && t.answers(a) && a.ansTime != 0 {
						if v == nil || a.ansTime < v.ansTime {
							v = a
						}
					}
				}
				if v == nil || ev.At <= v.ansTime {
					w.Fail("C06", "event-before-verdict", "%s received %s.%s (emitted at t=%d) at t=%d, after the %s trigger of t=%d but before a new access verdict was known", c.Label, ev.RID, ev.Event, emit, ev.At, t.kind, t.time)
				} else if !v.grantG && !c.Client.Holds(ev.RID) {
					// delivered after a refusal although the client no longer holds the resource: reported by ClientMon
				}
			}
		}
	}
}

// eventEmitTime finds the time at which the service emitted the stream event
// a client event frame stands for (0 if it carries no sequence number).
func eventEmitTime(w *World, c *Conn, ev ClientEvent) int {
	seq := 0
	kind := ev.Event
	switch ev.Event {
	case "custom":
		seq = ev.Seq
	case "change":
		var d struct {
			Values map[string]json.RawMessage `json:"values"`
		}
		json.Unmarshal(ev.Data, &d)
		if v, ok := d.Values["n"]; ok {
			json.Unmarshal(v, &seq)
		}
	}
	if seq == 0 {
		return 0
	}
	key := ridKey(w, c, ev.RID)
	for _, e := range w.Svc.Events {
		if e.Key == key && e.Event == kind && e.Tag == seq {
			return e.Time
		}
	}
	return 0
}
