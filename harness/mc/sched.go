// Package mc is the model-checking engine: a cooperative scheduler that owns
// every worker goroutine of a real resgate Service, a controllable messaging
// client, reference models of the two peers (service, client), and the
// schedule explorer.
package mc

import (
	"fmt"
	"os"
	"runtime"
	"strings"
	"sync"
	"time"

	"github.com/resgateio/resgate/server/rescache"
)

// actor is one gated mailbox owner: a client connection worker or a cached
// resource name (EventSubscription).
type actor struct {
	ref     interface{}
	raw     string // cid or resource name
	isConn  bool
	begun   bool
	parked  bool
	running bool
	grant   chan struct{}
	gen     int
}

type task struct {
	throttle bool // the next callback of a throttle (started by Throttle.Done)
	id int
	f  func()
}

// Sched is the cooperative scheduler. At most one Sched is attached to the
// process-wide hook variable at a time.
type Sched struct {
	mu     sync.Mutex
	cond   *sync.Cond
	kicks  int
	begins int
	actors map[interface{}]*actor
	order  []*actor
	tasks  []*task
	nextT  int

	httpStarting int

	// frame sink
	onFrame    func(cid string, data []byte)
	onHTTPWait func(cid string)

	throttles []*rescache.Throttle
	thrSeen   map[*rescache.Throttle]bool

	hang     bool
	detached bool // counting mode: never park
	closures int  // number of closures granted
}

// HangDump, if set, is the path prefix of goroutine dumps written on a hang.
var HangDump = os.Getenv("VERIF_HANGDUMP")

// HangTimeout is the watchdog for a single step.
var HangTimeout = 20 * time.Second

// NewSched creates a scheduler and installs its hooks.
func NewSched() *Sched {
	s := &Sched{actors: make(map[interface{}]*actor)}
	s.cond = sync.NewCond(&s.mu)
	rescache.VerifHooks = &rescache.VerifHookSet{
		Kick:     s.hKick,
		Begin:    s.hBegin,
		Yield:    s.hYield,
		End:      s.hEnd,
		Go:       s.hGo,
		Frame:    s.hFrame,
		HTTPWait: s.hHTTPWait,
		Throttle: s.hThrottle,
	}
	return s
}

func (s *Sched) get(ref interface{}, raw string) *actor {
	a := s.actors[ref]
	if a == nil {
		_, isRes := ref.(*rescache.EventSubscription)
		a = &actor{ref: ref, raw: raw, isConn: !isRes, grant: make(chan struct{}, 1)}
		s.actors[ref] = a
		s.order = append(s.order, a)
	}
	return a
}

func (s *Sched) hKick(ref interface{}, raw string) {
	s.mu.Lock()
	s.kicks++
	s.get(ref, raw)
	s.mu.Unlock()
}

func (s *Sched) hBegin(ref interface{}, raw string) {
	s.mu.Lock()
	s.begins++
	a := s.get(ref, raw)
	a.begun = true
	a.running = true
	s.cond.Broadcast()
	s.mu.Unlock()
}

func (s *Sched) hYield(ref interface{}, raw string) {
	s.mu.Lock()
	if s.detached {
		s.closures++
		s.mu.Unlock()
		return
	}
	a := s.get(ref, raw)
	a.parked = true
	a.running = false
	s.cond.Broadcast()
	s.mu.Unlock()
	<-a.grant
}

func (s *Sched) hEnd(ref interface{}, raw string) {
	s.mu.Lock()
	a := s.get(ref, raw)
	a.begun = false
	a.running = false
	a.parked = false
	s.cond.Broadcast()
	s.mu.Unlock()
}

func (s *Sched) hGo(f func()) bool {
	s.mu.Lock()
	defer s.mu.Unlock()
	if s.detached {
		return false
	}
	s.nextT++
	// a go statement in Throttle.Done starts the next callback of a throttle
	s.tasks = append(s.tasks, &task{id: s.nextT, f: f, throttle: stackHas("rescache.(*Throttle).Done")})
	return true
}

// inThrottleTask is set while the explorer runs a task that is the next
// callback of a throttle (requests made by it went through the throttle).
var inThrottleTask bool

// stackHas reports whether a function whose name contains one of subs is on
// the caller's stack.
func stackHas(subs ...string) bool {
	pcs := make([]uintptr, 64)
	n := runtime.Callers(2, pcs)
	frames := runtime.CallersFrames(pcs[:n])
	for {
		f, more := frames.Next()
		for _, sub := range subs {
			if strings.Contains(f.Function, sub) {
				return true
			}
		}
		if !more {
			return false
		}
	}
}

func (s *Sched) hThrottle(t *rescache.Throttle) {
	s.mu.Lock()
	if s.thrSeen == nil {
		s.thrSeen = map[*rescache.Throttle]bool{}
	}
	if !s.thrSeen[t] {
		s.thrSeen[t] = true
		s.throttles = append(s.throttles, t)
	}
	s.mu.Unlock()
}

// Throttles returns the throttles seen so far.
func (s *Sched) Throttles() []*rescache.Throttle {
	s.mu.Lock()
	defer s.mu.Unlock()
	return append([]*rescache.Throttle(nil), s.throttles...)
}

func (s *Sched) hFrame(_ interface{}, cid string, data []byte) {
	if s.onFrame != nil {
		d := make([]byte, len(data))
		copy(d, data)
		s.onFrame(cid, d)
	}
}

func (s *Sched) hHTTPWait(_ interface{}, cid string) {
	if s.onHTTPWait != nil {
		s.onHTTPWait(cid)
	}
}

func (s *Sched) settledLocked() bool {
	if s.kicks != s.begins || s.httpStarting != 0 {
		return false
	}
	for _, a := range s.order {
		if a.running {
			return false
		}
	}
	return true
}

// Settle blocks until every woken worker has either parked before its next
// closure or gone idle. It returns false on a hang (watchdog).
func (s *Sched) Settle() bool {
	s.mu.Lock()
	defer s.mu.Unlock()
	if s.settledLocked() {
		return true
	}
	t := time.AfterFunc(HangTimeout, func() {
		s.mu.Lock()
		s.hang = true
		s.cond.Broadcast()
		s.mu.Unlock()
	})
	defer t.Stop()
	for !s.settledLocked() {
		if s.hang {
			if HangDump != "" {
				buf := make([]byte, 1<<20)
				buf = buf[:runtime.Stack(buf, true)]
				hdr := fmt.Sprintf("kicks=%d begins=%d http=%d detached=%v\n", s.kicks, s.begins, s.httpStarting, s.detached)
				for _, a := range s.order {
					hdr += fmt.Sprintf("actor %q conn=%v begun=%v parked=%v running=%v\n", a.raw, a.isConn, a.begun, a.parked, a.running)
				}
				buf = append([]byte(hdr), buf...)
				os.WriteFile(fmt.Sprintf("%s-%d.txt", HangDump, os.Getpid()), buf, 0644)
			}
			return false
		}
		s.cond.Wait()
	}
	return true
}

func (s *Sched) settledNow() bool {
	s.mu.Lock()
	defer s.mu.Unlock()
	return s.settledLocked()
}

// Runnable returns the parked actors in creation order.
func (s *Sched) Runnable() []*actor {
	s.mu.Lock()
	defer s.mu.Unlock()
	var out []*actor
	for _, a := range s.order {
		if a.parked {
			out = append(out, a)
		}
	}
	return out
}

// Tasks returns the pending go-statement tasks, oldest first.
func (s *Sched) Tasks() []*task {
	s.mu.Lock()
	defer s.mu.Unlock()
	return append([]*task(nil), s.tasks...)
}

// Step lets a parked actor run exactly one closure and settles.
func (s *Sched) Step(a *actor) bool {
	s.mu.Lock()
	if !a.parked {
		s.mu.Unlock()
		panic(fmt.Sprintf("sched: step of non-parked actor %s", a.raw))
	}
	a.parked = false
	a.running = true
	s.closures++
	s.mu.Unlock()
	a.grant <- struct{}{}
	return s.Settle()
}

// Window lets a parked actor run one closure while the caller - another
// actor - is in the middle of one (inside a blocking call to the environment).
// It waits until that closure has ended, or for at most d: a closure that
// does not end is taken to be blocked on a lock the caller holds (which is
// how the window is meant to be closed), it goes on once the caller has
// released the lock and the next Settle waits for it. The wait is a
// scheduling aid only; no verdict depends on it.
func (s *Sched) Window(a *actor, d time.Duration) (ended bool) {
	s.mu.Lock()
	if s.detached || !a.parked {
		s.mu.Unlock()
		return false
	}
	a.parked = false
	a.running = true
	s.closures++
	s.mu.Unlock()
	a.grant <- struct{}{}
	// poll: nobody may be left to signal a condition variable here (the granted
	// closure can be blocked on a lock of the caller), and a timer's wake-up
	// could come before the wait begins
	deadline := time.Now().Add(d)
	for {
		s.mu.Lock()
		running := a.running
		s.mu.Unlock()
		if !running {
			return true
		}
		if !time.Now().Before(deadline) {
			return false
		}
		time.Sleep(100 * time.Microsecond)
	}
}

// ConnActor returns the parked actor of the connection with the given id, if any.
func (s *Sched) ConnActor(cid string) *actor {
	s.mu.Lock()
	defer s.mu.Unlock()
	for _, a := range s.order {
		if a.isConn && a.parked && strings.Contains(a.raw, cid) {
			return a
		}
	}
	return nil
}

// RunTask runs a captured go-statement body on the caller's goroutine.
func (s *Sched) RunTask(t *task) bool {
	s.mu.Lock()
	for i, x := range s.tasks {
		if x == t {
			s.tasks = append(s.tasks[:i:i], s.tasks[i+1:]...)
			break
		}
	}
	s.mu.Unlock()
	inThrottleTask = t.throttle
	t.f()
	inThrottleTask = false
	return s.Settle()
}

// Release detaches the scheduler: every parked actor is released and nothing
// parks any more. Used at teardown so that worker goroutines can exit.
func (s *Sched) Release() {
	s.mu.Lock()
	s.detached = true
	var parked []*actor
	for _, a := range s.order {
		if a.parked {
			a.parked = false
			a.running = true // until its run ends; Settle must wait for it
			parked = append(parked, a)
		}
	}
	tasks := s.tasks
	s.tasks = nil
	s.mu.Unlock()
	for _, a := range parked {
		a.grant <- struct{}{}
	}
	_ = tasks
}

// Busy adjusts the number of harness goroutines (auto-answers, dialers) that
// are in flight; Settle waits for it to drop to zero.
func (s *Sched) Busy(d int) { s.HTTPStarting(d) }

// Detach switches to counting mode before anything runs: nothing ever parks.
func (s *Sched) Detach() {
	s.mu.Lock()
	s.detached = true
	s.mu.Unlock()
}

// HTTPStarting adjusts the number of HTTP handler goroutines that have been
// started but have neither returned nor reached their wait point.
func (s *Sched) HTTPStarting(d int) {
	s.mu.Lock()
	s.httpStarting += d
	s.cond.Broadcast()
	s.mu.Unlock()
}
