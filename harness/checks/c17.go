package checks

import (
	"fmt"
	"net/http"
	"sort"
	"strings"
	"time"

	"github.com/posener/wstest"
	"github.com/resgateio/resgate/server"
	"verif/harness/mc"
	"verif/harness/run"
)

func statusTable(code string) int {
	switch code {
	case "system.notFound", "system.methodNotFound", "system.timeout":
		return 404
	case "system.accessDenied":
		return 401
	case "system.forbidden":
		return 403
	case "system.methodNotAllowed":
		return 405
	case "system.subjectTooLong":
		return 414
	case "system.internalError":
		return 500
	case "system.serviceUnavailable":
		return 503
	}
	return 400
}

func equalFoldASCII(a, b string) bool {
	if len(a) != len(b) {
		return false
	}
	for i := 0; i < len(a); i++ {
		x, y := a[i], b[i]
		if 'A' <= x && x <= 'Z' {
			x += 'a' - 'A'
		}
		if 'A' <= y && y <= 'Z' {
			y += 'a' - 'A'
		}
		if x != y {
			return false
		}
	}
	return true
}

func enumC17(tier string, part, parts, skip int, deadline time.Time, note func(int, string)) *run.EnumResult {
	res := &run.EnumResult{Exhaustive: true, Rule: "HTTP status/meta/CORS: (a) every predefined error code + custom codes on get / access / call / auth failures x GET/POST; (b) meta status over {-1,0,200,299,300,302,404,599,600,2^31} on access / call / auth responses; (c) meta header names over protected and unprotected names in several letter cases, single and multi valued, on auth+access+call, differential against the run without meta headers; (d) Origin strings x allow-lists for GET, POST, OPTIONS and the WebSocket upgrade, with and without header authentication. Exhaustive product of these small alphabets. distinct_nontrivial counts cases with an error, a meta object or an Origin header"}
	idx := -1
	active := func(desc string) bool {
		idx++
		if idx%parts != part || idx < skip {
			return false
		}
		if time.Now().After(deadline) {
			res.Exhaustive = false
			return false
		}
		note(idx, desc)
		return true
	}
	fail := func(kind, msg string, in interface{}) {
		if len(res.Found) < 8 {
			res.Found = append(res.Found, run.EnumFound{Kind: kind, Msg: msg, Input: in})
		}
	}
	type respond func(subject string) string // "" = truthful
	// one HTTP request in a fresh gated world
	runHTTP := func(cfg func(*server.Config), rq mc.HTTPReq, rsp respond) (*mc.HTTPCall, []mc.MQRecord) {
		w := mc.NewWorld(&mc.Scenario{Name: "c17", NoEvict: true, Cfg: cfg,
			Init: func(w *mc.World) {
				w.Svc.Model("test.m", "a", `1`)
				w.Svc.Call = func(_, _, _ string) string { return `{"result":{"ok":true}}` }
			},
			Menu: func(w *mc.World, r *mc.Req) []mc.Outcome {
				if rsp != nil {
					if s := rsp(r.Subject); s != "" {
						if s == "TIMEOUT" {
							return []mc.Outcome{mc.Timeout()}
						}
						if s == "NORESP" {
							return []mc.Outcome{mc.NoResponders()}
						}
						return []mc.Outcome{mc.Raw("scripted", s)}
					}
				}
				return nil
			}})
		h := w.HTTP(rq)
		w.Drain(500)
		log := w.MQ.RawLog(0)
		w.Close()
		res.Evaluations++
		res.Distinct++
		if !h.Done {
			fail("no-termination", fmt.Sprintf("%v did not complete", rq), rq.URL)
		}
		return h, log
	}
	reqCount := func(log []mc.MQRecord, prefix string) int {
		n := 0
		for _, r := range log {
			if r.Kind == "REQ" && strings.HasPrefix(r.Subject, prefix) {
				n++
			}
		}
		return n
	}
	errResp := func(code string) string {
		return fmt.Sprintf(`{"error":{"code":%q,"message":"m"}}`, code)
	}
	hauth := "auth.login"
	withAuth := func(c *server.Config) { c.HeaderAuth = &hauth }

	// ---- (a) status mapping
	codes := []string{"system.notFound", "system.methodNotFound", "system.timeout", "system.accessDenied", "system.forbidden", "system.methodNotAllowed", "system.subjectTooLong", "system.internalError", "system.serviceUnavailable", "system.invalidParams", "system.invalidQuery", "system.noSubscription", "system.badRequest", "system.notImplemented", "system.deleted", "custom.code", "system", ""}
	for _, code := range codes {
		for _, where := range []string{"get", "access-get", "access-post", "call"} {
			code, where := code, where
			desc := "status " + where + " " + code
			if !active(desc) {
				continue
			}
			rq := mc.HTTPReq{Method: "GET", URL: "/api/test/m"}
			if where == "access-post" || where == "call" {
				rq = mc.HTTPReq{Method: "POST", URL: "/api/test/m/act", Body: `{}`}
			}
			h, _ := runHTTP(nil, rq, func(subj string) string {
				switch {
				case where == "get" && strings.HasPrefix(subj, "get."),
					strings.HasPrefix(where, "access") && strings.HasPrefix(subj, "access."),
					where == "call" && strings.HasPrefix(subj, "call."):
					return errResp(code)
				}
				return ""
			})
			want := statusTable(code)
			if code == "" {
				want = 400
			}
			if h.Rec.Code != want {
				fail("status-mapping", fmt.Sprintf("%s: status %d, expected %d", desc, h.Rec.Code, want), desc)
			}
			if len(res.Samples) < 2 {
				res.Samples = append(res.Samples, desc)
			}
		}
	}
	for _, adapterErr := range []string{"TIMEOUT", "NORESP"} {
		for _, where := range []string{"get.", "access.", "call."} {
			adapterErr, where := adapterErr, where
			desc := "status adapter " + where + adapterErr
			if !active(desc) {
				continue
			}
			rq := mc.HTTPReq{Method: "GET", URL: "/api/test/m"}
			if where == "call." {
				rq = mc.HTTPReq{Method: "POST", URL: "/api/test/m/act", Body: `{}`}
			}
			h, _ := runHTTP(nil, rq, func(subj string) string {
				if strings.HasPrefix(subj, where) {
					return adapterErr
				}
				return ""
			})
			if h.Rec.Code != 404 {
				fail("status-mapping", fmt.Sprintf("%s: status %d, expected 404", desc, h.Rec.Code), desc)
			}
		}
	}

	// ---- (b) meta status
	statuses := []string{"-1", "0", "200", "299", "300", "302", "404", "599", "600", "2147483648"}
	for _, st := range statuses {
		for _, where := range []string{"access-get", "access-post", "call", "auth"} {
			st, where := st, where
			desc := "meta-status " + where + " " + st
			if !active(desc) {
				continue
			}
			var sv int64
			fmt.Sscan(st, &sv)
			honoured := sv >= 300 && sv < 600
			rq := mc.HTTPReq{Method: "GET", URL: "/api/test/m"}
			if where == "access-post" || where == "call" {
				rq = mc.HTTPReq{Method: "POST", URL: "/api/test/m/act", Body: `{}`}
			}
			var cfg func(*server.Config)
			if where == "auth" {
				cfg = withAuth
			}
			h, log := runHTTP(cfg, rq, func(subj string) string {
				meta := `"meta":{"status":` + st + `}`
				switch {
				case strings.HasPrefix(where, "access") && strings.HasPrefix(subj, "access."):
					return `{"result":{"get":true,"call":"*"},` + meta + `}`
				case where == "call" && strings.HasPrefix(subj, "call."):
					return `{"result":{"ok":true},` + meta + `}`
				case where == "auth" && strings.HasPrefix(subj, "auth."):
					return `{"result":null,` + meta + `}`
				}
				return ""
			})
			if honoured {
				if int64(h.Rec.Code) != sv {
					fail("meta-status", fmt.Sprintf("%s: status %d, expected the meta status", desc, h.Rec.Code), desc)
				}
				// no request may be published after the answer carrying the status was delivered
				metaSubj := map[string]string{"access-get": "access.", "access-post": "access.", "call": "call.", "auth": "auth."}[where]
				at := -1
				for _, r := range log {
					if r.Kind == "ANS" && strings.HasPrefix(r.Subject, metaSubj) {
						at = r.Time
					}
				}
				for _, r := range log {
					if r.Kind == "REQ" && at >= 0 && r.Time > at {
						fail("meta-status-continues", fmt.Sprintf("%s: %s was published after the direct-response status had been delivered", desc, r.Subject), desc)
					}
				}
			} else {
				want := 200
				if h.Rec.Code != want {
					fail("meta-status", fmt.Sprintf("%s: status %d, expected %d (meta status must be ignored)", desc, h.Rec.Code, want), desc)
				}
			}
		}
	}

	// ---- (c) meta headers
	hdrNames := []string{"Content-Type", "content-type", "CONTENT-TYPE", "Access-Control-Allow-Origin", "access-control-allow-origin", "Access-Control-Allow-Credentials", "Sec-WebSocket-Protocol", "sec-websocket-extensions", "Sec-Websocket-Accept", "X-Custom", "x-custom", "Location", "Vary"}
	protected := func(k string) bool {
		k = http.CanonicalHeaderKey(k)
		// Sec-WebSocket-* headers only exist on upgrade responses: judged by the handshake cases below
		return k == "Content-Type" || k == "Access-Control-Allow-Origin" || k == "Access-Control-Allow-Credentials"
	}
	// all values of a header whatever the letter case of its key in the map
	// (a recorder keeps "content-type" and "Content-Type" apart, the wire does not)
	hdrVals := func(h http.Header, name string) []string {
		var keys []string
		for k := range h {
			if strings.EqualFold(k, name) {
				keys = append(keys, k)
			}
		}
		sort.Strings(keys)
		var out []string
		for _, k := range keys {
			out = append(out, h[k]...)
		}
		return out
	}
	// mode: which answers carry the meta and whether they are results or errors
	//   ok      - every answer is a result with the meta
	//   err     - the last answer of the chain (call for POST, access for GET) is an error with the meta
	//   autherr - the header authentication answer is an error with the meta (auth only)
	for _, mode := range []string{"ok", "err", "autherr"} {
		for _, method := range []string{"GET", "POST"} {
			for _, auth := range []bool{false, true} {
				mode, method, auth := mode, method, auth
				if mode == "autherr" && !auth {
					continue
				}
				var cfg func(*server.Config)
				if auth {
					cfg = withAuth
				}
				rq := mc.HTTPReq{Method: "GET", URL: "/api/test/m"}
				if method == "POST" {
					rq = mc.HTTPReq{Method: "POST", URL: "/api/test/m/act", Body: `{}`}
				}
				answer := func(name, vals string) func(subj string) string {
					return func(subj string) string {
						meta := ""
						if name != "" {
							meta = fmt.Sprintf(`,"meta":{"header":{%q:%s,"Set-Cookie":["c=%s"]}}`, name, vals, subj[:2])
						}
						errBody := `{"error":{"code":"system.invalidParams","message":"no"}` + meta + `}`
						last := "access."
						if method == "POST" {
							last = "call."
						}
						switch {
						case strings.HasPrefix(subj, "auth."):
							if mode == "autherr" {
								return errBody
							}
							if mode == "err" {
								return `{"result":null}`
							}
							return `{"result":null` + meta + `}`
						case mode == "autherr":
							return ""
						case mode == "err" && strings.HasPrefix(subj, last):
							return errBody
						case mode == "err":
							return ""
						case strings.HasPrefix(subj, "access."):
							return `{"result":{"get":true,"call":"*"}` + meta + `}`
						case strings.HasPrefix(subj, "call."):
							return `{"result":{"ok":true}` + meta + `}`
						}
						return ""
					}
				}
				var base *mc.HTTPCall
				for _, name := range append([]string{""}, hdrNames...) {
					for _, multi := range []bool{false, true} {
						name, multi := name, multi
						if name == "" && multi {
							continue
						}
						desc := fmt.Sprintf("meta-header %s %s auth=%v %q multi=%v", mode, method, auth, name, multi)
						// the base run (no meta) is needed by every part
						if name == "" {
							base, _ = runHTTP(cfg, rq, answer("", ""))
							res.Evaluations--
							res.Distinct--
							continue
						}
						if !active(desc) {
							continue
						}
						vals := `["evil"]`
						if multi {
							vals = `["evil","evil2"]`
						}
						h, _ := runHTTP(cfg, rq, answer(name, vals))
						if h.Rec.Code != base.Rec.Code {
							fail("meta-header-status", fmt.Sprintf("%s: status %d vs %d without meta", desc, h.Rec.Code, base.Rec.Code), desc)
						}
						ck := http.CanonicalHeaderKey(name)
						if protected(name) {
							if fmt.Sprint(hdrVals(h.Rec.Header(), ck)) != fmt.Sprint(hdrVals(base.Rec.Header(), ck)) {
								fail("protected-header-replaced", fmt.Sprintf("%s: header %s is %v, without meta %v", desc, ck, hdrVals(h.Rec.Header(), ck), hdrVals(base.Rec.Header(), ck)), desc)
							}
						} else if strings.HasPrefix(ck, "Sec-Websocket-") {
							// not applicable to plain HTTP responses
						} else if v := hdrVals(h.Rec.Header(), ck); len(v) == 0 || v[0] != "evil" {
							fail("meta-header-dropped", fmt.Sprintf("%s: header %s is %v", desc, ck, v), desc)
						}
						// Set-Cookie accumulates over the answering requests
						var wantCookies []string
						switch mode {
						case "ok":
							wantCookies = []string{"c=ac"}
							if auth {
								wantCookies = []string{"c=au", "c=ac"}
							}
							if method == "POST" {
								wantCookies = append(wantCookies, "c=ca")
							}
						case "err":
							wantCookies = []string{"c=ac"}
							if method == "POST" {
								wantCookies = []string{"c=ca"}
							}
						case "autherr":
							wantCookies = []string{"c=au"}
						}
						got := append([]string(nil), hdrVals(h.Rec.Header(), "Set-Cookie")...)
						sort.Strings(got)
						sort.Strings(wantCookies)
						if fmt.Sprint(got) != fmt.Sprint(wantCookies) {
							fail("set-cookie", fmt.Sprintf("%s: Set-Cookie %v, expected %v", desc, got, wantCookies), desc)
						}
					}
				}
			}
		}
	}

	// meta headers on the WebSocket handshake: the upgrade must stay valid
	// (genuine Sec-WebSocket-Accept first, no protocol/extension injected)
	for _, name := range hdrNames {
		name := name
		desc := fmt.Sprintf("meta-header WS %q", name)
		if !active(desc) {
			continue
		}
		code, _, hdr := dialWSMeta(func(c *server.Config) { c.WSHeaderAuth = &hauth }, nil,
			fmt.Sprintf(`{"result":null,"meta":{"header":{%q:["evil"],"Set-Cookie":["c=1"]}}}`, name))
		res.Evaluations++
		res.Distinct++
		// the same with the authentication answered by an error: the upgrade goes on, the meta still applies
		code2, _, hdr2 := dialWSMeta(func(c *server.Config) { c.WSHeaderAuth = &hauth }, nil,
			fmt.Sprintf(`{"error":{"code":"system.invalidParams","message":"no"},"meta":{"header":{%q:["evil"],"Set-Cookie":["c=1"]}}}`, name))
		res.Evaluations++
		res.Distinct++
		if code2 == 101 {
			for k, vs := range hdr2 {
				if strings.EqualFold(k, "Sec-Websocket-Protocol") || strings.EqualFold(k, "Sec-Websocket-Extensions") {
					for _, v := range vs {
						if strings.Contains(v, "evil") {
							fail("ws-meta-header", fmt.Sprintf("%s (auth error): %s contains the service supplied value", desc, k), desc)
						}
					}
				}
			}
		} else {
			fail("ws-meta-header", fmt.Sprintf("%s (auth error): handshake failed with status %d", desc, code2), desc)
		}
		if code != 101 {
			fail("ws-meta-header", fmt.Sprintf("%s: handshake failed with status %d", desc, code), desc)
			continue
		}
		for _, k := range []string{"Sec-Websocket-Protocol", "Sec-Websocket-Extensions"} {
			for _, v := range hdr[k] {
				if strings.Contains(v, "evil") {
					fail("ws-meta-header", fmt.Sprintf("%s: %s contains the service supplied value", desc, k), desc)
				}
			}
		}
		if fmt.Sprint(hdr["Set-Cookie"]) != "[c=1]" {
			fail("ws-meta-header", fmt.Sprintf("%s: Set-Cookie is %v", desc, hdr["Set-Cookie"]), desc)
		}
	}

	// ---- (d) CORS
	lists := []string{"*", "http://a.example", "http://a.example;https://b.example:8080", "http://kiwi.example"}
	origins := []string{"-", "null", "", "http://a.example", "HTTP://A.EXAMPLE", "http://a.exampl", "http://a.example.evil", "http://a.example:80", "https://b.example:8080", "https://B.example:8080", "http://ａ.example", "http://a.example\x80", "http://\xff.example", "http://K.example", "http://a.example;https://b.example:8080",
		"http://kiwi.example", "http://KIWI.example", "http://\u212aiwi.example", "http://k\u0130wi.example", "http://k\u0131wi.example", "http://\uff4biwi.example"}
	for _, list := range lists {
		for _, origin := range origins {
			for _, method := range []string{"GET", "POST", "OPTIONS", "WS"} {
				for _, auth := range []bool{false, true} {
					list, origin, method, auth := list, origin, method, auth
					desc := fmt.Sprintf("cors list=%q origin=%q %s auth=%v", list, origin, method, auth)
					if !active(desc) {
						continue
					}
					cfg := func(c *server.Config) {
						c.AllowOrigin = &list
						if auth {
							c.HeaderAuth = &hauth
							c.WSHeaderAuth = &hauth
						}
					}
					allowed := list == "*" || origin == "-" || origin == "null"
					if !allowed {
						for _, l := range strings.Split(list, ";") {
							if equalFoldASCII(l, origin) {
								allowed = true
							}
						}
					}
					hdr := map[string]string{}
					if origin != "-" {
						hdr["Origin"] = origin
					}
					if method == "WS" {
						code, traffic := dialWS(cfg, hdr)
						res.Evaluations++
						res.Distinct++
						if allowed && code != 101 {
							fail("cors-ws", fmt.Sprintf("%s: upgrade refused with %d", desc, code), desc)
						}
						if !allowed && (code == 101 || traffic > 0) {
							fail("cors-ws", fmt.Sprintf("%s: status %d, %d service requests; expected refusal without traffic", desc, code, traffic), desc)
						}
						continue
					}
					rq := mc.HTTPReq{Method: method, URL: "/api/test/m", Header: hdr}
					if method == "POST" {
						rq = mc.HTTPReq{Method: "POST", URL: "/api/test/m/act", Body: `{}`, Header: hdr}
					}
					h, log := runHTTP(cfg, rq, nil)
					nreq := reqCount(log, "")
					aco := h.Rec.Header().Get("Access-Control-Allow-Origin")
					if method == "OPTIONS" {
						if nreq != 0 {
							fail("cors-options", fmt.Sprintf("%s: %d service requests for a pre-flight", desc, nreq), desc)
						}
						if !allowed && aco == origin {
							fail("cors-options", fmt.Sprintf("%s: refused origin echoed in Access-Control-Allow-Origin", desc), desc)
						}
						continue
					}
					if allowed {
						if h.Rec.Code != 200 {
							fail("cors", fmt.Sprintf("%s: status %d, expected 200", desc, h.Rec.Code), desc)
						}
					} else {
						if h.Rec.Code != 403 || nreq != 0 {
							fail("cors", fmt.Sprintf("%s: status %d with %d service requests, expected 403 and none", desc, h.Rec.Code, nreq), desc)
						}
					}
				}
			}
		}
	}
	return res
}

// dialWS performs a WebSocket handshake against the real wsHandler in a
// free-running world. It returns the HTTP status of the handshake and the
// number of service requests made.
func dialWS(cfg func(*server.Config), hdr map[string]string) (int, int) {
	c, n, _ := dialWSMeta(cfg, hdr, "")
	return c, n
}

func dialWSMeta(cfg func(*server.Config), hdr map[string]string, authResp string) (int, int, http.Header) {
	w := mc.NewFreeWorld(&mc.Scenario{Name: "c17ws", NoEvict: true, Cfg: cfg}, func(w *mc.World, r *mc.Req) mc.Outcome {
		if authResp != "" && strings.HasPrefix(r.Subject, "auth.") {
			return mc.Raw("scripted", authResp)
		}
		return w.OK(r)
	})
	defer w.Close()
	d := wstest.NewDialer(w.Serv.GetWSHandlerFunc())
	h := http.Header{}
	for k, v := range hdr {
		h[k] = []string{v}
	}
	c, resp, err := d.Dial("ws://example.org/", h)
	code := 0
	var rh http.Header
	if resp != nil {
		code = resp.StatusCode
		rh = resp.Header
	}
	if err == nil && c != nil {
		code = 101
		c.Close()
	}
	if !w.WaitNoConns(10 * time.Second) {
		code = -1
	}
	n := 0
	for _, r := range w.MQ.RawLog(0) {
		if r.Kind == "REQ" {
			n++
		}
	}
	return code, n, rh
}

func init() {
	register(&run.Check{
		Prop:        "C17",
		Level:       "exploration",
		EnumPar:     enumC17,
		EnumParts:   map[string]int{"quick": 32, "thorough": 32},
		Assumptions: []string{"status table and ASCII-case-insensitive origin comparison written from the statement", "WebSocket upgrades go through posener/wstest's in-memory pipe and gorilla/websocket as in the repository's own tests"},
	})
}
