package checks

import (
	"encoding/json"
	"bufio"
	"net"
	"errors"
	"fmt"
	"net/http"
	"net/http/httptest"
	"strings"
	"sync"
	"time"

	"github.com/gorilla/websocket"
	"github.com/posener/wstest"
	"github.com/resgateio/resgate/server"
	"verif/harness/mc"
	"verif/harness/run"
)

// sockClient is a WebSocket client connected through the real wsHandler.
type sockClient struct {
	ws     *websocket.Conn
	mu     sync.Mutex
	frames []string
	closed chan struct{}
	nextID int
}

// pipeDialer is wstest.NewDialer with one addition: if the handler returns
// without hijacking the connection and without writing a response (what the
// gateway does when it is stopped), an empty 503 is written like net/http
// would finish the exchange, so that the client's Dial returns.
func pipeDialer(h http.Handler) *websocket.Dialer {
	client, srv := net.Pipe()
	go func() {
		req, err := http.ReadRequest(bufio.NewReader(srv))
		if err != nil {
			return
		}
		rec := &pipeRecorder{server: srv}
		h.ServeHTTP(rec, req)
		if !rec.hijacked && !rec.wrote {
			resp := http.Response{StatusCode: 503, Header: http.Header{}, ProtoMajor: 1, ProtoMinor: 1}
			resp.Write(srv)
		}
		if !rec.hijacked {
			srv.Close()
		}
	}()
	return &websocket.Dialer{NetDial: func(network, addr string) (net.Conn, error) { return client, nil }}
}

type pipeRecorder struct {
	httptest.ResponseRecorder
	server   net.Conn
	hijacked bool
	wrote    bool
}

func (r *pipeRecorder) Hijack() (net.Conn, *bufio.ReadWriter, error) {
	r.hijacked = true
	rw := bufio.NewReadWriter(bufio.NewReader(r.server), bufio.NewWriter(r.server))
	return r.server, rw, nil
}

func (r *pipeRecorder) WriteHeader(code int) {
	r.wrote = true
	resp := http.Response{StatusCode: code, Header: r.Header(), ProtoMajor: 1, ProtoMinor: 1}
	resp.Write(r.server)
}

func (r *pipeRecorder) Write(b []byte) (int, error) {
	if !r.wrote {
		r.WriteHeader(200)
	}
	return len(b), nil
}

var _ = wstest.NewDialer

func dialSock(w *mc.World) (*sockClient, error) {
	d := pipeDialer(w.Serv.GetWSHandlerFunc())
	ws, _, err := d.Dial("ws://example.org/", nil)
	if err != nil {
		return nil, err
	}
	c := &sockClient{ws: ws, closed: make(chan struct{}), nextID: 1}
	go func() {
		defer close(c.closed)
		for {
			_, b, err := ws.ReadMessage()
			if err != nil {
				return
			}
			c.mu.Lock()
			c.frames = append(c.frames, string(b))
			c.mu.Unlock()
		}
	}()
	return c, nil
}

func (c *sockClient) send(method, params string) {
	id := c.nextID
	c.nextID++
	f := fmt.Sprintf(`{"id":%d,"method":%q}`, id, method)
	if params != "" {
		f = fmt.Sprintf(`{"id":%d,"method":%q,"params":%s}`, id, method, params)
	}
	c.ws.WriteMessage(websocket.TextMessage, []byte(f))
}

func (c *sockClient) nframes() int {
	c.mu.Lock()
	defer c.mu.Unlock()
	return len(c.frames)
}

// waitFrames waits until the client has received n frames (bounded).
func (c *sockClient) waitFrames(n int) bool {
	dl := time.Now().Add(10 * time.Second)
	for c.nframes() < n {
		if time.Now().After(dl) {
			return false
		}
		time.Sleep(100 * time.Microsecond)
	}
	return true
}

type c20Step struct {
	name string
	do   func(st *c20State)
}

type c20State struct {
	w       *mc.World
	clients []*sockClient
	https   []*httptest.ResponseRecorder
	httpWG  sync.WaitGroup
	hold    map[string]bool // subjects whose requests stay unanswered
	holdMu  sync.Mutex
	faulted bool
	issues  []string
}

func (st *c20State) connect() {
	c, err := dialSock(st.w)
	if err != nil {
		if !st.faulted {
			st.issues = append(st.issues, "dial failed before the fault: "+err.Error())
		}
		st.clients = append(st.clients, nil)
		return
	}
	if st.faulted {
		st.issues = append(st.issues, "a WebSocket connection was accepted after the fault")
	}
	st.clients = append(st.clients, c)
	st.w.Settle()
}

func (st *c20State) sendWait(i int, method, params string, wait bool) {
	if i >= len(st.clients) || st.clients[i] == nil {
		return
	}
	c := st.clients[i]
	n := c.nframes()
	c.send(method, params)
	if wait && !st.faulted {
		if !c.waitFrames(n + 1) {
			st.issues = append(st.issues, "no response to "+method+" before the fault")
		}
	} else {
		// let the request reach the gateway and settle as far as it can
		time.Sleep(2 * time.Millisecond)
	}
	st.w.Settle()
}

func (st *c20State) httpAsync(method, url string) {
	rr := httptest.NewRecorder()
	st.https = append(st.https, rr)
	req, _ := http.NewRequest(method, url, strings.NewReader(`{}`))
	st.httpWG.Add(1)
	faulted := st.faulted
	go func() {
		defer st.httpWG.Done()
		st.w.Serv.ServeHTTP(rr, req)
		_ = faulted
	}()
	time.Sleep(2 * time.Millisecond)
	st.w.Settle()
}

func c20Histories() map[string][]c20Step {
	sub := func(i int, rid string, wait bool) c20Step {
		return c20Step{"subscribe " + rid, func(st *c20State) { st.sendWait(i, "subscribe."+rid, "", wait) }}
	}
	conn := c20Step{"connect", func(st *c20State) { st.connect() }}
	ver := func(i int) c20Step {
		return c20Step{"version", func(st *c20State) { st.sendWait(i, "version", `{"protocol":"1.2.3"}`, true) }}
	}
	ev := func(name string, f func(w *mc.World)) c20Step {
		return c20Step{name, func(st *c20State) {
			if st.faulted {
				return // the service cannot publish: the messaging connection is gone
			}
			f(st.w)
			st.w.Settle()
		}}
	}
	return map[string][]c20Step{
		"idle": {conn, ver(0), conn, ver(1)},
		"outstanding-subscribe": {conn, ver(0), sub(0, "test.held", false), conn, sub(1, "test.m", true),
			ev("m.change", func(w *mc.World) { w.Svc.Change("test.m", "a", `2`) })},
		"outstanding-call": {conn, ver(0), sub(0, "test.m", true),
			{"call", func(st *c20State) { st.sendWait(0, "call.test.m.heldcall", `{}`, false) }},
			ev("m.change", func(w *mc.World) { w.Svc.Change("test.m", "a", `3`) })},
		"http-in-flight": {conn, ver(0), sub(0, "test.m", true),
			{"GET held", func(st *c20State) { st.httpAsync("GET", "/api/test/held") }},
			{"POST", func(st *c20State) { st.httpAsync("POST", "/api/test/m/ok") }}},
		"pending-eviction": {conn, ver(0), sub(0, "test.m", true),
			{"unsubscribe", func(st *c20State) { st.sendWait(0, "unsubscribe.test.m", "", true) }},
			sub(0, "test.x", true), conn},
		"throttled-reset": {conn, ver(0), sub(0, "test.m", true), sub(0, "test.x", true), sub(0, "test.y", true),
			ev("reset", func(w *mc.World) {
				w.Data["holdgets"] = true
				w.Svc.Reset([]string{"test.>"}, []string{"test.>"})
			}),
			ev("x.change", func(w *mc.World) { w.Svc.Change("test.x", "n", `1`) })},
	}
}

func enumC20(tier string, part, parts, skip int, deadline time.Time, note func(int, string)) *run.EnumResult {
	res := &run.EnumResult{Exhaustive: true, Rule: "fail-stop: 6 base histories (idle connections, outstanding subscribe, outstanding call, HTTP requests in flight, pending eviction, throttled reset in progress) over real WebSocket connections (in-memory pipe through wsHandler/gorilla) x a fault injected after every step index x {Stop(nil), messaging closed handler with an error} x {quiet close, messages still delivered while the messaging client is closing: an event per cached resource and the answers to all outstanding requests, the other kind of stop arriving while the first is under way}; then the remaining steps are attempted, a new WebSocket dial and HTTP request are made, and Start/subscribe/Stop is repeated. distinct_nontrivial counts (history, index, fault) triples with at least one connection open at the fault"}
	hs := c20Histories()
	names := []string{"idle", "outstanding-subscribe", "outstanding-call", "http-in-flight", "pending-eviction", "throttled-reset"}
	idx := -1
	for _, hn := range names {
		steps := hs[hn]
		for at := 0; at <= len(steps); at++ {
			for _, fault := range []string{"stop", "mq-lost", "stop+late", "mq-lost+late", "stop+second", "mq-lost+second"} {
				idx++
				if idx%parts != part || idx < skip {
					continue
				}
				if time.Now().After(deadline) {
					res.Exhaustive = false
					return res
				}
				desc := fmt.Sprintf("%s fault=%s after step %d/%d", hn, fault, at, len(steps))
				note(idx, desc)
				issues, open := runC20(hn, steps, at, fault)
				res.Evaluations++
				if open > 0 {
					res.Distinct++
				}
				for _, is := range issues {
					kind := is
					if i := strings.IndexByte(kind, ':'); i > 0 {
						kind = kind[:i]
					}
					dup := false
					for _, f := range res.Found {
						if f.Kind == kind {
							dup = true
						}
					}
					if !dup {
						res.Found = append(res.Found, run.EnumFound{Kind: kind, Msg: is + " [" + desc + "]", Input: desc})
					}
				}
				if len(res.Samples) < 3 && at > 2 {
					res.Samples = append(res.Samples, desc)
				}
			}
		}
	}
	return res
}

func runC20(hn string, steps []c20Step, at int, fault string) (issues []string, open int) {
	late := strings.HasSuffix(fault, "+late")
	fault = strings.TrimSuffix(fault, "+late")
	// +second: while the stop is under way (or right after it) the other kind of
	// stop arrives as well; the first cause is the one reported, once
	second := strings.HasSuffix(fault, "+second")
	fault = strings.TrimSuffix(fault, "+second")
	st := &c20State{hold: map[string]bool{}}
	sc := &mc.Scenario{Name: "c20/" + hn, NoEvict: true,
		Cfg: func(c *server.Config) {
			if hn == "throttled-reset" {
				c.ResetThrottle = 1
			}
		},
		Init: func(w *mc.World) {
			w.Svc.Model("test.m", "a", `1`, "r", ref("test.x"))
			w.Svc.Model("test.x", "n", `0`)
			w.Svc.Model("test.y", "n", `0`)
			w.Svc.Model("test.held", "n", `0`)
			w.Svc.Call = func(_, _, _ string) string { return `{"result":{"ok":true}}` }
		}}
	w := mc.NewFreeWorld(sc, func(w *mc.World, r *mc.Req) mc.Outcome {
		if strings.Contains(r.Subject, "held") {
			return mc.Outcome{Name: "hold"}
		}
		if w.Data["holdgets"] != nil && strings.HasPrefix(r.Subject, "get.") {
			return mc.Outcome{Name: "hold"}
		}
		return w.OK(r)
	})
	st.w = w
	defer w.Close()
	stopCh := w.Serv.StopChannel()
	cause := errors.New("lost messaging connection (injected)")
	preCIDs := map[string]bool{}
	doFault := func() {
		// the connections that exist at the fault (socket and temporary HTTP ones)
		for _, cs := range w.Serv.VerifSnapshot() {
			preCIDs[cs.CID] = true
		}
		for _, c := range st.clients {
			if c != nil {
				open++
			}
		}
		mark := w.MQ.LogLen()
		t0 := time.Now()
		done := make(chan struct{})
		if late {
			// while the messaging client is being closed its listener still
			// delivers: an event on each cached resource and the answers to
			// the requests that are outstanding
			w.MQ.DuringClose = func() {
				for _, rid := range []string{"test.m", "test.x", "test.y", "test.held"} {
					w.MQ.Publish("event."+rid+".change", []byte(`{"values":{"late":1}}`))
				}
				for _, r := range w.MQ.Pending() {
					w.MQ.Answer(r, "ok", w.Svc.DefaultAnswer(r), nil)
				}
			}
		}
		go func() {
			defer close(done)
			if fault == "stop" {
				w.Serv.Stop(nil)
			} else {
				w.MQ.Lose()(cause)
			}
		}()
		if second {
			time.Sleep(5 * time.Millisecond)
			sd := make(chan struct{})
			go func() {
				defer close(sd)
				if fault == "stop" {
					if h := w.MQ.Lose(); h != nil {
						h(cause)
					}
				} else {
					w.Serv.Stop(nil)
				}
			}()
			select {
			case <-sd:
			case <-time.After(20 * time.Second):
				st.issues = append(st.issues, "stop-timeout: a second stop request made while stopping did not return within 20s")
			}
		}
		// while Stop is still under way (it may wait for connections), nothing new is accepted
		select {
		case <-done:
		case <-time.After(30 * time.Millisecond):
			if c, err := dialSock(w); err == nil {
				st.issues = append(st.issues, "accepted-while-stopping: a new WebSocket connection was accepted while the service was stopping")
				st.clients = append(st.clients, c)
			}
			rr := httptest.NewRecorder()
			req, _ := http.NewRequest("GET", "/api/test/m", nil)
			hd := make(chan struct{})
			go func() { defer close(hd); w.Serv.ServeHTTP(rr, req) }()
			select {
			case <-hd:
				if rr.Code != 503 {
					st.issues = append(st.issues, fmt.Sprintf("served-while-stopping: HTTP GET during Stop answered %d", rr.Code))
				}
			case <-time.After(10 * time.Second):
				st.issues = append(st.issues, "served-while-stopping: HTTP GET during Stop did not return")
			}
		}
		select {
		case <-done:
		case <-time.After(20 * time.Second):
			st.issues = append(st.issues, "stop-timeout: Stop did not return within 20s")
			return
		}
		if d := time.Since(t0); d > 15*time.Second {
			st.issues = append(st.issues, fmt.Sprintf("stop-slow: Stop took %v", d))
		}
		st.faulted = true
		// cause reported on the stop channel
		select {
		case err := <-stopCh:
			// with two stop requests under way either may have been the first (they
			// are made from two goroutines): its cause is reported, and only it
			if !second && (fault == "stop" && err != nil || fault == "mq-lost" && err != cause) || second && err != nil && err != cause {
				st.issues = append(st.issues, fmt.Sprintf("stop-cause: stop channel reported %v", err))
			}
			// exactly one cause: the channel is closed after it
			select {
			case err2, open := <-stopCh:
				if open {
					st.issues = append(st.issues, fmt.Sprintf("stop-cause: a second cause %v was reported on the stop channel", err2))
				}
			case <-time.After(2 * time.Second):
				st.issues = append(st.issues, "stop-cause: the stop channel was not closed after the cause")
			}
		case <-time.After(5 * time.Second):
			st.issues = append(st.issues, "stop-cause: nothing reported on the stop channel")
		}
		// every client observes the close
		for i, c := range st.clients {
			if c == nil {
				continue
			}
			select {
			case <-c.closed:
			case <-time.After(10 * time.Second):
				st.issues = append(st.issues, fmt.Sprintf("client-not-closed: client %d still connected after the fault", i))
			}
		}
		// nothing is published after Stop returned
		for _, r := range w.MQ.RawLog(mark) {
			if r.Kind == "REQ" || r.Kind == "SUB" {
				// requests issued while stopping are tolerated; after return they are not
			}
		}
	}
	for i, s := range steps {
		if i == at {
			doFault()
		}
		s.do(st)
	}
	if at == len(steps) {
		doFault()
	}
	mark := w.MQ.LogLen()
	for _, cid := range w.CIDs() {
		preCIDs[cid] = true
	}
	// new connections and requests are refused
	if c, err := dialSock(w); err == nil {
		st.issues = append(st.issues, "accepted-after-fault: a new WebSocket connection was accepted after the fault")
		c.ws.Close()
	}
	rr := httptest.NewRecorder()
	req, _ := http.NewRequest("GET", "/api/test/m", nil)
	hdone := make(chan struct{})
	go func() { defer close(hdone); w.Serv.ServeHTTP(rr, req) }()
	select {
	case <-hdone:
		if rr.Code != 503 {
			st.issues = append(st.issues, fmt.Sprintf("served-after-fault: HTTP GET after the fault answered %d", rr.Code))
		}
	case <-time.After(10 * time.Second):
		st.issues = append(st.issues, "served-after-fault: HTTP GET after the fault did not return")
	}
	for _, r := range w.MQ.RawLog(mark) {
		// Work that was in progress at the fault may go on for a moment when a
		// late answer arrives (a throttled reset hands its slot on, a loaded
		// resource subscribes to its references): those requests go to a closed
		// client and serve nobody. Serving one of the probes made after the
		// fault would start with an access request carrying a connection id that
		// did not exist before the fault.
		if r.Kind != "REQ" {
			continue
		}
		var f struct {
			CID string `json:"cid"`
		}
		if json.Unmarshal([]byte(r.Payload), &f) != nil || f.CID == "" || preCIDs[f.CID] {
			continue
		}
		st.issues = append(st.issues, "traffic-after-fault: "+r.Kind+" "+r.Subject+" for a connection made after the fault")
	}
	// HTTP requests in flight must have completed or been released
	hw := make(chan struct{})
	go func() { st.httpWG.Wait(); close(hw) }()
	select {
	case <-hw:
	case <-time.After(100 * time.Millisecond):
		// a request whose service request is never answered stays blocked: tolerated (diagnostic only)
	}
	// Start / Stop may be repeated
	w.Data = map[string]interface{}{}
	if err := w.Serv.Start(); err != nil {
		st.issues = append(st.issues, "restart: "+err.Error())
		return st.issues, open
	}
	st.faulted = false
	c, err := dialSock(w)
	if err != nil {
		st.issues = append(st.issues, "restart: dial failed: "+err.Error())
	} else {
		rmark := w.MQ.LogLen()
		c.send("subscribe.test.m", "")
		if !c.waitFrames(1) {
			st.issues = append(st.issues, "restart: no response to subscribe after restart")
		} else if !strings.Contains(c.frames[0], `"test.m"`) {
			st.issues = append(st.issues, "restart: unexpected subscribe response "+c.frames[0])
		}
		// the restarted gateway must not serve from the cache of the previous run
		seen := map[string]bool{}
		for _, r := range w.MQ.RawLog(rmark) {
			seen[r.Kind+" "+r.Subject] = true
		}
		for _, want := range []string{"SUB event.test.m", "REQ get.test.m", "REQ get.test.x"} {
			if !seen[want] {
				st.issues = append(st.issues, "stale-cache-after-restart: after Stop and Start, subscribe.test.m was served without "+want)
			}
		}
	}
	ch2 := w.Serv.StopChannel()
	sdone := make(chan struct{})
	go func() { defer close(sdone); w.Serv.Stop(nil) }()
	select {
	case <-sdone:
	case <-time.After(20 * time.Second):
		st.issues = append(st.issues, "stop-timeout: second Stop did not return")
	}
	select {
	case err := <-ch2:
		if err != nil {
			st.issues = append(st.issues, "stop-cause: second stop reported "+err.Error())
		}
	case <-time.After(5 * time.Second):
		st.issues = append(st.issues, "stop-cause: nothing reported by the second stop")
	}
	if c != nil {
		select {
		case <-c.closed:
		case <-time.After(10 * time.Second):
			st.issues = append(st.issues, "client-not-closed: client of the second cycle still connected")
		}
	}
	return st.issues, open
}

func init() {
	register(&run.Check{
		Prop:        "C20",
		Level:       "fault_enumeration",
		EnumPar:     enumC20,
		EnumParts:   map[string]int{"quick": 32, "thorough": 32},
		Budget:      map[string]time.Duration{"quick": 150 * time.Second, "thorough": 15 * time.Minute},
		Assumptions: []string{"WSTimeout/MQTimeout and the HTTP shutdown timeout stay real: completion is only bounded from above (15 s)", "interleavings inside Stop are those of the free-running scheduler; the enumeration is over fault points, not schedules", "service requests that are outstanding at the fault are never answered afterwards (as the adapter drops them on Close)"},
	})
}
