package checks

import (
	"fmt"
	"strings"
	"time"

	"github.com/jirenius/timerqueue"
	"github.com/resgateio/resgate/logger"
	rnats "github.com/resgateio/resgate/nats"
	"github.com/resgateio/resgate/server/mq"
	"verif/harness/natsmc"
	"verif/harness/run"
)

func c18Scenarios(tier string) []*natsmc.Scenario {
	scs := []*natsmc.Scenario{
		{Name: "reply-vs-timeout", Scripts: [][]string{{"reply:A", "reply:B"}, {"reply:C"}}},
		{Name: "pre-response", Scripts: [][]string{{"pre:60000", "reply:A"}, {"pre:60000", "pre:60000", "reply:B", "reply:C"}}},
		{Name: "no-responders", Scripts: [][]string{{"503", "reply:A"}, {"reply:B", "503"}}},
		{Name: "silence", Scripts: [][]string{{"pre:1"}, {}}},
		// a second pre-response replaces the timer of the first; the extended timers are fired by the
		// explorer in two steps (xfire: the timer expires, xrun: its function runs), so a reply or another
		// pre-response can fall between the two
		{Name: "pre-response-replaced", Scripts: [][]string{{"pre:150", "pre:60000", "reply:A"}}},
		{Name: "pre-response-elapsed", Scripts: [][]string{{"pre:60000", "pre:100", "reply:A", "reply:B"}}},
		// a request that the client library refuses to publish (payload above the server's max_payload)
		// after its reply subscription was made: one completion, nothing left behind
		{Name: "publish-fails", Scripts: [][]string{{}, {"reply:A"}}, Big: []int{0}, Events: 1},
		// an eager service answers (reply / no responders) while the request is still being published
		{Name: "eager-reply", Scripts: [][]string{{"reply:A", "reply:B"}}, Eager: []int{0}},
		{Name: "eager-503", Scripts: [][]string{{"503"}}, Eager: []int{0}},
		{Name: "events", Scripts: [][]string{{"reply:A"}}, Events: 3, Unsub: true},
		{Name: "disconnect", Scripts: [][]string{{"reply:A"}, {"pre:60000"}}, Events: 1, Drop: true},
		{Name: "close", Scripts: [][]string{{"reply:A"}, {"reply:B"}}, Close: true},
	}
	if tier == "thorough" {
		scs = append(scs,
			&natsmc.Scenario{Name: "three-requests", Scripts: [][]string{{"reply:A"}, {"pre:60000", "reply:B"}, {"503"}}},
			&natsmc.Scenario{Name: "events-and-requests", Scripts: [][]string{{"pre:60000", "reply:A"}, {"reply:B"}}, Events: 2, Unsub: true, Drop: true},
		)
	}
	return scs
}

func enumC18(tier string, part, parts, skip int, deadline time.Time, note func(int, string)) *run.EnumResult {
	res := &run.EnumResult{Exhaustive: true, Extra: map[string]interface{}{}, Rule: "NATS adapter against an in-process server speaking the NATS text protocol (loopback TCP, real nats.go client): every maximal sequence of {send request i, server sends the next scripted message of request i (reply / second reply / pre-response / empty 503), default-timeout pop and fire (owned timer queue, two phases), extended-timeout expiry and run (owned AfterFunc timers, two phases), publish event, Unsubscribe, server disconnect, Close} for 2 (thorough: 3) concurrent requests; model-predicted completion per request compared with the callbacks observed; timer/pending invariant after every action; plus the subject length sweep 3990..4200 for SendRequest and Subscribe. distinct_nontrivial counts sequences in which a reply, a timeout or a disconnect races another event of the same request"}
	idx := -1
	for _, sc := range c18Scenarios(tier) {
		sc := sc
		natsmc.Leaves(sc, func(seq []string) {
			idx++
			if idx%parts != part || idx < skip {
				return
			}
			if time.Now().After(deadline) {
				res.Exhaustive = false
				return
			}
			desc := sc.Name + ": " + strings.Join(seq, " ")
			note(idx, desc)
			r, err := natsmc.Start(sc)
			if err != nil {
				res.Found = append(res.Found, run.EnumFound{Kind: "harness", Msg: err.Error(), Input: desc})
				return
			}
			for _, a := range seq {
				ok := false
				for _, e := range r.Enabled() {
					if e == a {
						ok = true
					}
				}
				if !ok {
					r.Viol = append(r.Viol, "harness: action "+a+" not enabled in the real run")
					break
				}
				r.Do(a)
			}
			viol := r.Finish()
			r.Stop()
			res.Evaluations++
			if strings.Contains(desc, "pop") && strings.Contains(desc, "srv") {
				res.Distinct++
			}
			for _, v := range viol {
				kind := "adapter-contract"
				if strings.HasPrefix(v, "harness") {
					kind = "harness"
				}
				dup := false
				for _, f := range res.Found {
					if f.Kind == kind+"/"+sc.Name {
						dup = true
					}
				}
				if !dup {
					res.Found = append(res.Found, run.EnumFound{Kind: kind + "/" + sc.Name, Msg: v + " [" + desc + "]", Input: desc})
				}
			}
			if len(res.Samples) < 3 && len(seq) > 6 {
				res.Samples = append(res.Samples, desc)
			}
		})
	}
	// subject length sweep
	for _, api := range []string{"request", "subscribe"} {
		for l := 3990; l <= 4200; l++ {
			idx++
			if idx%parts != part || idx < skip {
				continue
			}
			desc := fmt.Sprintf("%s with a subject of %d bytes", api, l)
			note(idx, desc)
			if msg := sweepLength(api, l); msg != "" {
				dup := false
				for _, f := range res.Found {
					if f.Kind == "control-line/"+api {
						dup = true
					}
				}
				if !dup {
					res.Found = append(res.Found, run.EnumFound{Kind: "control-line/" + api, Msg: msg + " [" + desc + "]", Input: desc})
				}
			}
			res.Evaluations++
			res.Distinct++
		}
	}
	return res
}

// sweepLength sends one request / makes one subscription with a subject of
// the given length: either the adapter refuses it with subjectTooLong and
// writes nothing, or the server accepts the control line.
func sweepLength(api string, l int) string {
	timerqueue.VerifManual = true
	srv, err := natsmc.NewFakeServer()
	if err != nil {
		return "harness: " + err.Error()
	}
	defer srv.Stop()
	cl := &rnats.Client{URL: srv.URL(), RequestTimeout: 3 * time.Second, Logger: logger.NewMemLogger(false, false), BufferSize: 16}
	closed := make(chan error, 1)
	cl.SetClosedHandler(func(err error) { closed <- err })
	if err := cl.Connect(); err != nil {
		return "harness: " + err.Error()
	}
	defer cl.Close()
	subj := "call." + strings.Repeat("a", l-5)
	refused := false
	if api == "request" {
		done := make(chan error, 1)
		cl.SendRequest(subj, []byte(`{"params":null}`), func(_ string, _ []byte, err error) { done <- err })
		// either the adapter refuses (callback with subjectTooLong) or the PUB reaches the server
		dl := time.Now().Add(5 * time.Second)
	wait:
		for {
			select {
			case err := <-done:
				if err == mq.ErrSubjectTooLong {
					refused = true
					break wait
				}
				return fmt.Sprintf("request completed at once with %v", err)
			default:
			}
			pubs, _, errs := srv.Snapshot()
			for _, p := range pubs {
				if p.Subject == subj {
					break wait
				}
			}
			if len(errs) > 0 || srv.Closed() || time.Now().After(dl) {
				break wait
			}
			time.Sleep(50 * time.Microsecond)
		}
	} else {
		_, err := cl.Subscribe(subj, func(string, []byte, error) {})
		if err == mq.ErrSubjectTooLong {
			refused = true
		} else if err != nil {
			return fmt.Sprintf("Subscribe failed with %v", err)
		}
	}
	// flush: a request on a short subject must still work afterwards
	probe := make(chan error, 1)
	cl.SendRequest("call.probe", []byte(`{}`), func(_ string, _ []byte, err error) { probe <- err })
	dl := time.Now().Add(5 * time.Second)
	for {
		pubs, subs, errs := srv.Snapshot()
		if len(errs) > 0 || srv.Closed() {
			return fmt.Sprintf("the adapter accepted the subject but the server answered -ERR %v and closed the connection (%d bytes)", errs, l)
		}
		seenProbe := false
		wrote := false
		for _, p := range pubs {
			if p.Subject == "call.probe" {
				seenProbe = true
			}
			if p.Subject == subj {
				wrote = true
			}
		}
		for _, s := range subs {
			if strings.HasPrefix(s, subj) {
				wrote = true
			}
		}
		if seenProbe {
			if refused && wrote {
				return "subjectTooLong reported but the control line was written"
			}
			if !refused && !wrote {
				return "subject accepted but nothing was written"
			}
			return ""
		}
		if time.Now().After(dl) {
			return "probe request was not published within 5s"
		}
		time.Sleep(100 * time.Microsecond)
	}
}

func init() {
	register(&run.Check{
		Prop:        "C18",
		Level:       "model_checking",
		EnumPar:     enumC18,
		EnumParts:   map[string]int{"quick": 64, "thorough": 128},
		Budget:      map[string]time.Duration{"quick": 150 * time.Second, "thorough": 25 * time.Minute},
		Assumptions: []string{"the fake server implements the documented NATS text protocol and the real server's control-line limit (arguments of PUB/SUB <= 4096 bytes, else -ERR and close), read from nats-server v2.6.6 parser.go", "Close() drops pending requests without completion: exactly once while open, at most once always", "pre-response timers run on the real clock: only a lower bound is asserted", "message handling order is owned through a sentinel subscription (the listener handles one FIFO channel)"},
	})
}
