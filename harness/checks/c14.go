package checks

import (
	"encoding/json"
	"fmt"
	"net/url"
	"strings"
	"time"

	"github.com/resgateio/resgate/server"
	"verif/harness/mc"
	"verif/harness/run"
)

// ---------------------------------------------------------------------------
// reference parser for client resource ids
// ---------------------------------------------------------------------------

func refTokenOK(t string) bool {
	if t == "" {
		return false
	}
	for i := 0; i < len(t); i++ {
		c := t[i]
		if c < 33 || c > 126 || c == '*' || c == '>' || c == '?' {
			return false
		}
	}
	return true
}

// refRID splits a client rid into resource name and query; ok is false if
// the name is not a sequence of non-empty clean tokens.
func refRID(rid string) (name, query string, ok bool) {
	name = rid
	if i := strings.IndexByte(rid, '?'); i >= 0 {
		name, query = rid[:i], rid[i+1:]
	}
	if name == "" {
		return "", "", false
	}
	for _, t := range strings.Split(name, ".") {
		if !refTokenOK(t) {
			return "", "", false
		}
	}
	return name, query, true
}

// refMethod parses a WebSocket method string. kind is "" for invalid input.
func refMethod(m string) (kind, name, query, method string) {
	i := strings.IndexByte(m, '.')
	if i < 0 {
		if m == "version" {
			return "version", "", "", ""
		}
		return "", "", "", ""
	}
	action, rest := m[:i], m[i+1:]
	switch action {
	case "get", "subscribe", "unsubscribe", "new":
	case "call", "auth":
		j := strings.LastIndexByte(rest, '.')
		if j < 0 {
			return "", "", "", ""
		}
		method = rest[j+1:]
		rest = rest[:j]
		if !refTokenOK(method) || strings.Contains(method, ".") {
			return "", "", "", ""
		}
	default:
		return "", "", "", ""
	}
	n, q, ok := refRID(rest)
	if !ok {
		return "", "", "", ""
	}
	return action, n, q, method
}

func jsonStr(s string) string {
	var b strings.Builder
	b.WriteByte('"')
	for i := 0; i < len(s); i++ {
		c := s[i]
		switch {
		case c == '"' || c == '\\':
			b.WriteByte('\\')
			b.WriteByte(c)
		case c < 0x20 || c == 0x7f:
			fmt.Fprintf(&b, "\\u%04x", c)
		default:
			b.WriteByte(c)
		}
	}
	b.WriteByte('"')
	return b.String()
}

// expectedSubjects returns the subjects the gateway may use for a request.
func expectedSubjects(kind, name, method string) map[string]bool {
	m := map[string]bool{}
	switch kind {
	case "get", "subscribe":
		m["access."+name] = true
		m["get."+name] = true
		m["SUB event."+name] = true
	case "new":
		m["access."+name] = true
		m["call."+name+".new"] = true
	case "call":
		m["access."+name] = true
		m["call."+name+"."+method] = true
	case "auth":
		m["auth."+name+"."+method] = true
	}
	return m
}

type trafficRec struct {
	kind, subject, payload string
}

// traffic returns the REQ/SUB records added since mark.
func traffic(w *mc.World, mark int) ([]trafficRec, int) {
	log := w.MQ.RawLog(mark)
	var out []trafficRec
	for _, r := range log {
		if r.Kind == "REQ" || r.Kind == "SUB" {
			out = append(out, trafficRec{r.Kind, r.Subject, r.Payload})
		}
	}
	return out, mark + len(log)
}

func enumC14(tier string, part, parts, skip int, deadline time.Time, note func(int, string)) *run.EnumResult {
	res := &run.EnumResult{Exhaustive: true, Extra: map[string]interface{}{}}
	wsLen, httpSegs := 4, 3
	if tier == "thorough" {
		wsLen = 5
	}
	res.Rule = fmt.Sprintf("WebSocket: every method string <action>.<body>, action in {get,subscribe,unsubscribe,call,auth,new,version,\"\",x}, body over the 14-symbol alphabet {a . * > ? space CR LF TAB %% {cid} é 0xff 0x7f} up to %d symbols; HTTP: every path of 1..%d segments over a 17-symbol alphabet (incl. percent-encodings of each special) x methods x apiPath prefixes x method mappings, parsed by http.ReadRequest; service-side: every body up to 3 symbols as reference rid and resource-response rid. Oracle: every subject is hygienic and equals the reference parser's expectation; reference-invalid input gets system.invalidRequest / 404 and no service traffic. distinct_nontrivial counts inputs containing at least one special symbol", wsLen, httpSegs)
	idx := -1
	var w *mc.World
	var c *mc.Conn
	used := 0
	mark := 0
	nextID := 100
	newWorld := func(cfg func(*server.Config)) {
		if w != nil {
			w.Close()
		}
		sc := &mc.Scenario{Name: "c14", NoEvict: true, Cfg: cfg, Conns: []mc.ConnSpec{conn(latest)},
			Init: func(w *mc.World) {
				w.Svc.Model("a", "n", `0`)
			}}
		w = mc.NewWorld(sc)
		c = w.Conns[0]
		w.Drain(50)
		used = 0
		_, mark = traffic(w, 0)
	}
	defer func() {
		if w != nil {
			w.Close()
		}
	}()
	fail := func(kind, msg string, input interface{}) {
		if len(res.Found) < 8 {
			res.Found = append(res.Found, run.EnumFound{Kind: kind, Msg: msg, Input: input})
		}
	}
	active := func(desc string) bool {
		idx++
		if idx%parts != part || idx < skip {
			return false
		}
		if time.Now().After(deadline) {
			res.Exhaustive = false
			return false
		}
		note(idx, desc)
		return true
	}
	special := func(s string) bool { return strings.Trim(s, "a.") != "" }

	// ---- WebSocket method strings
	wsAlpha := []string{"a", ".", "*", ">", "?", " ", "\r", "\n", "\t", "%", "{cid}", "é", "\xff", "\x7f"}
	actions := []string{"get", "subscribe", "unsubscribe", "call", "auth", "new", "version", "", "x"}
	var curCfg string
	doWS := func(method string) {
		if !active("ws " + fmt.Sprintf("%q", method)) {
			return
		}
		if w == nil || used > 150 || curCfg != "ws" {
			newWorld(nil)
			curCfg = "ws"
		}
		used++
		nextID++
		id := nextID
		nf := len(c.Frames)
		w.Inject(c, []byte(fmt.Sprintf(`{"id":%d,"method":%s}`, id, jsonStr(method))))
		if !w.Drain(300) {
			en := []string{}
			for _, a := range w.Enabled() {
				en = append(en, a.Name)
			}
			tl := w.Trace
			if len(tl) > 12 {
				tl = tl[len(tl)-12:]
			}
			fail("stall", fmt.Sprintf("gateway did not quiesce: hung=%v enabled=%v trace=%v c1=%s cids=%v idx=%d used=%d", w.Hung, en, tl, c.CID, w.CIDs(), idx, used), method)
			w = nil
			return
		}
		var tr []trafficRec
		tr, mark = traffic(w, mark)
		res.Evaluations++
		if special(method) {
			res.Distinct++
		}
		// what the gateway decoded from the JSON string
		var decoded string
		json.Unmarshal([]byte(jsonStr(method)), &decoded)
		kind, name, _, meth := refMethod(decoded)
		name = strings.ReplaceAll(name, "{cid}", c.CID)
		// response
		var resp struct {
			ID    *int `json:"id"`
			Error *struct {
				Code string `json:"code"`
			} `json:"error"`
		}
		got := 0
		for _, f := range c.Frames[nf:] {
			var r struct {
				ID *int `json:"id"`
			}
			if json.Unmarshal(f, &r) == nil && r.ID != nil && *r.ID == id {
				got++
				json.Unmarshal(f, &resp)
			}
		}
		if got != 1 {
			fail("response-count", fmt.Sprintf("method %q: %d responses", method, got), method)
			return
		}
		exp := expectedSubjects(kind, name, meth)
		for _, t := range tr {
			key := t.subject
			if t.kind == "SUB" {
				key = "SUB " + t.subject
			}
			if !mc.ValidSubject(t.subject) {
				fail("bad-subject", fmt.Sprintf("method %q: gateway used subject %q", method, t.subject), method)
			} else if !exp[key] {
				fail("unexpected-subject", fmt.Sprintf("method %q: gateway used %s %q, expected one of %v", method, t.kind, t.subject, keys(exp)), method)
			}
		}
		if kind == "" {
			if resp.Error == nil || resp.Error.Code != "system.invalidRequest" {
				code := "success"
				if resp.Error != nil {
					code = resp.Error.Code
				}
				fail("invalid-not-rejected", fmt.Sprintf("method %q is not a valid request but was answered %s", method, code), method)
			}
			if len(tr) > 0 {
				fail("traffic-for-invalid", fmt.Sprintf("method %q is invalid but caused %d service message(s)", method, len(tr)), method)
			}
		} else if kind != "version" && kind != "unsubscribe" {
			if resp.Error != nil && resp.Error.Code == "system.invalidRequest" {
				fail("valid-rejected", fmt.Sprintf("method %q is a valid request but was answered system.invalidRequest", method), method)
			}
		}
		// clean up subscriptions so that the state stays small
		if kind == "subscribe" && resp.Error == nil {
			nextID++
			w.Inject(c, []byte(fmt.Sprintf(`{"id":%d,"method":%s}`, nextID, jsonStr("unsubscribe."+decoded[len("subscribe."):]))))
			w.Drain(300)
			_, mark = traffic(w, mark)
		}
		if len(res.Samples) < 3 && special(method) {
			res.Samples = append(res.Samples, fmt.Sprintf("ws method %q", method))
		}
	}
	for _, a := range actions {
		doWS(a)
		allStrings(wsAlpha, wsLen, func(body string) { doWS(a + "." + body) })
	}

	// ---- HTTP paths
	segAlpha := []string{"a", "b", "*", ">", "%2E", "%2e", "%2A", "%3E", "%3F", "%20", "%0D%0A", "%00", "%ff", "%zz", "{cid}", "é", "a.b"}
	methods := []string{"GET", "POST", "PUT"}
	prefixes := []string{"/api/", "/", "/a/b/"}
	if tier == "thorough" {
		methods = []string{"GET", "HEAD", "POST", "PUT", "DELETE", "PATCH", "OPTIONS"}
	}
	for _, prefix := range prefixes {
		for _, mapped := range []bool{false, true} {
			prefix, mapped := prefix, mapped
			cfgName := fmt.Sprintf("http %s %v", prefix, mapped)
			cfg := func(c *server.Config) {
				c.APIPath = prefix
				if prefix == "/" {
					c.WSPath = "/ws"
				}
				if mapped {
					p, d, pa := "put", "del", "patch"
					c.PUTMethod, c.DELETEMethod, c.PATCHMethod = &p, &d, &pa
				}
			}
			doHTTP := func(method, path, query string) {
				target := prefix + path
				if query != "" {
					target += "?" + query
				}
				desc := method + " " + target
				if !active(cfgName + " " + desc) {
					return
				}
				if w == nil || used > 150 || curCfg != cfgName {
					newWorld(cfg)
					curCfg = cfgName
				}
				used++
				raw := method + " " + target + " HTTP/1.1\r\nHost: example.org\r\nContent-Length: 2\r\n\r\n{}"
				if method == "GET" || method == "HEAD" || method == "OPTIONS" {
					raw = method + " " + target + " HTTP/1.1\r\nHost: example.org\r\n\r\n"
				}
				h := w.HTTPRaw(raw)
				if h == nil {
					n, _ := res.Extra["rejected_by_net_http"].(float64)
					res.Extra["rejected_by_net_http"] = n + 1
					return
				}
				if !w.Drain(300) || !h.Done {
					fail("stall", fmt.Sprintf("HTTP request did not complete: %s hung=%v done=%v cid=%q code=%d", desc, w.Hung, h.Done, h.CID, h.Rec.Code), desc)
					w = nil
					return
				}
				var tr []trafficRec
				tr, mark = traffic(w, mark)
				res.Evaluations++
				if special(path) || query != "" {
					res.Distinct++
				}
				// reference: decode segments
				valid := !strings.Contains(path, ".") && path != ""
				var parts []string
				if valid {
					for _, s := range strings.Split(path, "/") {
						d, err := url.PathUnescape(s)
						if err != nil {
							valid = false
							break
						}
						parts = append(parts, d)
					}
				}
				name, meth := "", ""
				kind := ""
				if valid {
					switch method {
					case "GET", "HEAD":
						kind = "get"
						name = strings.Join(parts, ".")
					case "POST":
						if len(parts) < 2 {
							valid = false
						} else {
							kind = "call"
							name = strings.Join(parts[:len(parts)-1], ".")
							meth = parts[len(parts)-1]
						}
					case "PUT", "DELETE", "PATCH":
						if !mapped {
							kind = "notallowed"
						} else {
							kind = "call"
							name = strings.Join(parts, ".")
							meth = map[string]string{"PUT": "put", "DELETE": "del", "PATCH": "patch"}[method]
						}
					case "OPTIONS":
						kind = "options"
					}
				}
				if valid && (kind == "get" || kind == "call") {
					if _, _, ok := refRID(name); !ok || strings.Contains(name, "?") {
						valid = false
					}
					if kind == "call" && (!refTokenOK(meth) || strings.Contains(meth, ".")) {
						valid = false
					}
				}
				exp := map[string]bool{}
				if valid {
					ename := strings.ReplaceAll(name, "{cid}", h.CID)
					exp = expectedSubjects(kind, ename, meth)
					if kind == "call" {
						delete(exp, "get."+ename)
					}
				}
				for _, t := range tr {
					if t.kind == "SUB" && strings.HasPrefix(t.subject, "conn.") {
						continue
					}
					key := t.subject
					if t.kind == "SUB" {
						key = "SUB " + t.subject
					}
					if !mc.ValidSubject(t.subject) {
						fail("bad-subject", fmt.Sprintf("%s: gateway used subject %q", desc, t.subject), desc)
					} else if !exp[key] {
						fail("unexpected-subject", fmt.Sprintf("%s: gateway used %s %q, expected one of %v", desc, t.kind, t.subject, keys(exp)), desc)
					}
					if query != "" && strings.Contains(t.subject, query) && !strings.Contains(prefix+path, query) {
						fail("query-in-subject", fmt.Sprintf("%s: query appears in subject %q", desc, t.subject), desc)
					}
				}
				unmapped := !mapped && (method == "PUT" || method == "DELETE" || method == "PATCH")
				if method != "OPTIONS" && (!valid || unmapped) {
					want := 404
					if unmapped && (!strings.HasSuffix(target, "/") || path == "") {
						want = 405 // no mapping configured: refused before the path is looked at
					}
					if unmapped && len(tr) > 1 {
						fail("traffic-for-invalid", fmt.Sprintf("%s: unmapped method caused service traffic", desc), desc)
					}
					if h.Rec.Code != want {
						fail("invalid-not-rejected", fmt.Sprintf("%s: status %d, expected %d", desc, h.Rec.Code, want), desc)
					}
				}
				if len(res.Samples) < 6 && special(path) {
					res.Samples = append(res.Samples, desc)
				}
			}
			for _, m := range methods {
				var segs func(prefix string, n int)
				segs = func(p string, n int) {
					if n > 0 {
						doHTTP(m, p, "")
					}
					if n == httpSegs {
						return
					}
					for _, a := range segAlpha {
						np := a
						if p != "" {
							np = p + "/" + a
						}
						segs(np, n+1)
					}
				}
				segs("", 0)
				for _, q := range []string{"a=1", "q=%20", "x=*", "a=b&c=>", "é", "{cid}", "q.r", "?", "%zz"} {
					doHTTP(m, "a", q)
					doHTTP(m, "a/b", q)
				}
				// every special segment in first, middle and last (method) position together with a query string
				for _, a := range segAlpha {
					for _, q := range []string{"a=1", "q.r"} {
						doHTTP(m, "a/"+a, q)
						doHTTP(m, "a/b/"+a, q)
						doHTTP(m, a+"/b", q)
					}
				}
				doHTTP(m, "", "")
				doHTTP(m, "a/", "")
			}
		}
	}

	// ---- service-supplied rids
	if w != nil {
		w.Close()
		w = nil
	}
	var bodies []string
	allStrings(wsAlpha, 3, func(s string) { bodies = append(bodies, s) })
	for _, b := range bodies {
		b := b
		for _, how := range []string{"reference", "resource-response"} {
			how := how
			if !active("svc " + how + " " + fmt.Sprintf("%q", b)) {
				continue
			}
			sc := &mc.Scenario{Name: "c14svc", NoEvict: true,
				Init: func(w *mc.World) {
					w.Svc.Model("test.p", "r", `{"rid":`+jsonStr(b)+`}`)
					w.Svc.Call = func(_, _, _ string) string { return `{"resource":{"rid":` + jsonStr(b) + `}}` }
				}}
			if how == "reference" {
				sc.Conns = []mc.ConnSpec{conn(latest, req("subscribe.test.p", 0))}
			} else {
				sc.Conns = []mc.ConnSpec{conn(latest, reqp("call.test.p.mk", `{}`, 0))}
			}
			x := mc.RunOnce(sc, nil, mc.RunOpts{KeepTrace: true})
			res.Evaluations++
			if special(b) {
				res.Distinct++
			}
			var decoded string
			json.Unmarshal([]byte(jsonStr(b)), &decoded)
			_, _, ok := refRID(decoded)
			for _, r := range x.MQLog {
				if r.Kind != "REQ" && r.Kind != "SUB" {
					continue
				}
				r.Subject = strings.NewReplacer("<c1>", "cid1").Replace(r.Subject)
				if !mc.ValidSubject(r.Subject) {
					fail("bad-subject", fmt.Sprintf("service rid %q (%s): gateway used subject %q", b, how, r.Subject), b)
				}
				if !ok && !strings.HasSuffix(r.Subject, "test.p") && !strings.HasSuffix(r.Subject, "test.p.mk") && r.Subject != "system" && !strings.HasPrefix(r.Subject, "conn.") {
					fail("invalid-rid-followed", fmt.Sprintf("service rid %q (%s) is not a valid resource id but the gateway used %q", b, how, r.Subject), b)
				}
			}
			if x.Hung {
				fail("stall", "hang", b)
			}
		}
	}
	return res
}

func keys(m map[string]bool) []string {
	var out []string
	for k := range m {
		out = append(out, k)
	}
	return out
}

func init() {
	register(&run.Check{
		Prop:      "C14",
		Level:     "exploration",
		EnumPar:   enumC14,
		EnumParts: map[string]int{"quick": 64, "thorough": 128},
		Scenarios: func(tier string) []*mc.Scenario {
			// the always-on subject monitor of the E1 families, at a low bound
			var out []*mc.Scenario
			for _, s := range allScenarios(tier) {
				if strings.HasPrefix(s.Name, "disc/") {
					continue
				}
				c := *s
				c.Bound = map[string]int{"quick": 1, "thorough": 2}
				out = append(out, &c)
			}
			return out
		},
		Budget:      map[string]time.Duration{"quick": 150 * time.Second, "thorough": 25 * time.Minute},
		Assumptions: []string{"inputs that net/http's request parser rejects never reach the gateway and are counted apart", "the reference parser implements the token rules of the statement"},
	})
}
