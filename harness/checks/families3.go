package checks

import (
	"github.com/resgateio/resgate/server/rescache"
	"encoding/json"
	"fmt"
	"strings"

	"github.com/resgateio/resgate/server"
	"verif/harness/mc"
)

// ---------------------------------------------------------------------------
// query/*: query resources (C13)
// ---------------------------------------------------------------------------

// derivedDelete marks the resource name as deleted when the outcome is
// delivered: a system.notFound answer makes the gateway derive a delete event
// (context of the after-delete known finding).
func derivedDelete(w *mc.World, name string, o mc.Outcome) mc.Outcome {
	d := o.Data
	o.Data = func() []byte {
		w.Svc.Deleted[name] = true
		if d != nil {
			return d()
		}
		return nil
	}
	return o
}

func queryMenu(w *mc.World, r *mc.Req) []mc.Outcome {
	if strings.HasPrefix(r.Subject, "_QE_") {
		f := struct{ name string }{"test.q"}
		q := mc.ParseQuery(r.Payload)
		// untruthful or missing answers: the resource is not expected to converge any more
		lie := func(o mc.Outcome) mc.Outcome {
			d, e := o.Data, o.Err
			mark := func() {
				if r := w.Svc.Res[f.name+"?"+q]; r != nil {
					r.NoConv = true
				}
			}
			if d != nil {
				o.Data = func() []byte { mark(); return d() }
			} else if e != nil {
				o.Data = func() []byte { mark(); return nil }
			}
			return o
		}
		return []mc.Outcome{
			{Name: "model", Data: func() []byte { return w.Svc.QueryAnswer(f.name, q, "model") }},
			{Name: "events", Data: func() []byte { return w.Svc.QueryAnswer(f.name, q, "events") }},
			lie(mc.Outcome{Name: "empty", Data: func() []byte { return w.Svc.QueryAnswer(f.name, q, "empty") }}),
			lie(mc.ResErr("system.internalError")), derivedDelete(w, f.name, lie(mc.ResErr("system.notFound"))), lie(mc.Timeout()), lie(mc.NoResponders()),
			lie(mc.Raw("noevents", `{"result":{}}`)),
		}
	}
	return nil
}

func queryScenarios(tier string) []*mc.Scenario {
	var out []*mc.Scenario
	maps := map[string]map[string]string{
		"identity": {},
		"ab-n":     {"a": "n", "b": "n"},
		"a-b":      {"a": "b"},
	}
	for _, mn := range []string{"identity", "ab-n", "a-b"} {
		nm := maps[mn]
		out = append(out, &mc.Scenario{
			Name: "query/alias/" + mn, Props: []string{"C13"}, Init: queryInit(nm), Monitors: allMons(queryMon),
			Conns: []mc.ConnSpec{
				conn(latest, req("subscribe.test.q?a", 0), req("subscribe.test.q?b", 0), req("unsubscribe.test.q?a", 3)),
				conn(latest, req("subscribe.test.q?n", 0), req("subscribe.test.q?a", 1)),
			},
			Threads: []mc.Thread{{Name: "svc", Ops: []mc.Op{
				op("mutate+query", 2, func(w *mc.World) {
					for k, r := range w.Svc.Res {
						if strings.HasPrefix(k, "test.q?") {
							kk := k
							w.Svc.Silent(kk, func(r *mc.SvcRes) { r.M["n"] = `5`; r.M["extra"] = `"x"` })
							_ = r
						}
					}
					w.Svc.QueryEvent("test.q", "_QE_1")
				}),
			}}},
			Menu: queryMenu,
		})
	}
	// all aliases of a shared resource are released, then one is subscribed
	// again (must be fetched anew and follow later query events)
	out = append(out, &mc.Scenario{
		Name: "query/resubscribe", Props: []string{"C13", "C09"}, Init: queryInit(map[string]string{"a": "n", "b": "n"}), Monitors: allMons(queryMon),
		Conns: []mc.ConnSpec{
			conn(latest, req("subscribe.test.q?a", 0), req("subscribe.test.q?b", 0), req("unsubscribe.test.q?a", 1), req("unsubscribe.test.q?b", 1),
				req("subscribe.test.q?b", 3), req("subscribe.test.q?a", 5)),
		},
		Threads: []mc.Thread{{Name: "svc", Ops: []mc.Op{
			op("mutate+query", 2, func(w *mc.World) {
				w.Svc.Silent("test.q?n", func(r *mc.SvcRes) { r.M["v"] = `1` })
				w.Svc.QueryEvent("test.q", "_QE_1")
			}),
			op("mutate+query2", 4, func(w *mc.World) {
				w.Svc.Silent("test.q?n", func(r *mc.SvcRes) { r.M["v"] = `2` })
				w.Svc.QueryEvent("test.q", "_QE_2")
			}),
		}}},
		Menu: queryMenu,
	})
	// an alias is subscribed late: the normalised resource is loaded and has
	// already followed a query event when a second query string that
	// normalises to it is fetched; every holder must go on receiving the events
	out = append(out, &mc.Scenario{
		Name: "query/alias-late", Props: []string{"C13", "C03"}, Init: queryInit(map[string]string{"a": "n", "b": "n"}), Monitors: allMons(queryMon),
		Conns: []mc.ConnSpec{
			conn(latest, req("subscribe.test.q?n", 0), req("subscribe.test.q?b", 4)),
			conn(latest, req("subscribe.test.q?a", 2)),
		},
		Threads: []mc.Thread{{Name: "svc", Ops: []mc.Op{
			op("mutate+query", 1, func(w *mc.World) {
				w.Svc.Silent("test.q?n", func(r *mc.SvcRes) { r.M["v"] = `1` })
				w.Svc.QueryEvent("test.q", "_QE_1")
			}),
			op("mutate+query2", 3, func(w *mc.World) {
				w.Svc.Silent("test.q?n", func(r *mc.SvcRes) { r.M["v"] = `2` })
				w.Svc.QueryEvent("test.q", "_QE_2")
			}),
			op("mutate+query3", 5, func(w *mc.World) {
				w.Svc.Silent("test.q?n", func(r *mc.SvcRes) { r.M["v"] = `3` })
				w.Svc.QueryEvent("test.q", "_QE_3")
			}),
		}}},
		Menu: queryMenu,
	})
	// both aliasing gets in flight, answered in every order; events and a
	// second query event arrive while the first is being handled
	out = append(out, &mc.Scenario{
		Name: "query/lock", Props: []string{"C13", "C03"}, Init: queryInit(map[string]string{"a": "n"}), Monitors: allMons(queryMon, seqMon),
		Conns: []mc.ConnSpec{
			conn(latest, req("subscribe.test.q?a", 0), req("subscribe.test.q", 0), req("subscribe.test.q?c", 2)),
			conn(latest, req("subscribe.test.q?n", 0)),
		},
		Threads: []mc.Thread{
			{Name: "qe", Ops: []mc.Op{
				op("mutate+query", 1, func(w *mc.World) {
					w.Svc.Silent("test.q?n", func(r *mc.SvcRes) { r.M["v"] = `1` })
					w.Svc.Silent("test.q?c", func(r *mc.SvcRes) { r.M["v"] = `1` })
					w.Svc.QueryEvent("test.q", "_QE_1")
				}),
				op("mutate+query2", 2, func(w *mc.World) {
					w.Svc.Silent("test.q?n", func(r *mc.SvcRes) { r.M["v"] = `2` })
					w.Svc.Silent("test.q?c", func(r *mc.SvcRes) { r.M["v"] = `2` })
					w.Svc.QueryEvent("test.q", "_QE_2")
				}),
			}},
			{Name: "stream", Ops: []mc.Op{
				op("q+", 1, func(w *mc.World) { w.Svc.StreamNext("test.q") }),
				op("q+", 2, func(w *mc.World) { w.Svc.StreamNext("test.q") }),
				op("q+", 2, func(w *mc.World) { w.Svc.StreamNext("test.q") }),
				op("q+", 3, func(w *mc.World) { w.Svc.StreamNext("test.q") }),
			}},
		},
		Menu: queryMenu,
	})
	// a query collection answered with events / full collection
	out = append(out, &mc.Scenario{
		Name: "query/collection", Props: []string{"C13", "C12"}, Init: func(w *mc.World) {
			queryInit(map[string]string{"a": "n"})(w)
			w.Svc.Collection("test.q?n", `1`, `2`, `3`)
			w.Svc.Collection("test.q?c", `"x"`, ref("test.x"))
		}, Monitors: allMons(queryMon),
		Conns: []mc.ConnSpec{
			conn(latest, req("subscribe.test.q?a", 0), req("subscribe.test.q?c", 0)),
			conn("1.2.0", req("subscribe.test.q?n", 0)),
		},
		Threads: []mc.Thread{{Name: "qe", Ops: []mc.Op{
			op("mutate+query", 1, func(w *mc.World) {
				w.Svc.Silent("test.q?n", func(r *mc.SvcRes) { r.C = []string{`3`, `1`, `1`, `4`} })
				w.Svc.Silent("test.q?c", func(r *mc.SvcRes) { r.C = []string{ref("test.y"), `"x"`} })
				w.Svc.QueryEvent("test.q", "_QE_1")
			}),
			op("reset", 2, func(w *mc.World) {
				w.Svc.Silent("test.q?n", func(r *mc.SvcRes) { r.C = []string{`4`, `3`} })
				w.Svc.Reset([]string{"test.q"}, nil)
			}),
		}}},
		Menu: queryMenu,
	})
	return out
}

// ---------------------------------------------------------------------------
// thr/*: throttles (C19)
// ---------------------------------------------------------------------------

func thrScenarios(tier string) []*mc.Scenario {
	var out []*mc.Scenario
	names := []string{"test.t1", "test.t2", "test.t3", "test.t4"}
	for _, n := range []int{0, 1, 2} {
		n := n
		for _, fan := range []int{2, 4} {
			fan := fan
			if tier == "quick" && n == 2 && fan == 2 {
				continue
			}
			// reset throttle: fan resources, 2 connections on the first one
			sc := &mc.Scenario{
				Name:  fmt.Sprintf("thr/reset/N%d-M%d", n, fan),
				Props: []string{"C19", "C06"}, // a re-check that never leaves the throttle is a trigger without a verdict
				Cfg:   func(c *server.Config) { c.ResetThrottle = n },
				Init: func(w *mc.World) {
					for _, nm := range names[:fan] {
						w.Svc.Model(nm, "n", `0`)
					}
				},
				Threads: []mc.Thread{{Name: "svc", Ops: []mc.Op{
					{Name: "mutate+reset", Phase: 1, When: clientsDone, Do: func(w *mc.World) {
						for _, nm := range names[:fan] {
							w.Svc.Silent(nm, func(r *mc.SvcRes) { r.M["n"] = `1` })
						}
						w.Svc.Reset([]string{"test.>"}, []string{"test.>"})
					}},
					op("reset2", 2, func(w *mc.World) { w.Svc.Reset([]string{"test.t1", "test.t2"}, []string{"test.t1"}) }),
				}}},
				Bound: map[string]int{"quick": 1, "thorough": 3},
			}
			if n == 1 && fan == 2 {
				sc.Bound = map[string]int{"quick": 2, "thorough": -1}
			}
			var s1, s2 []mc.ClientReq
			for _, nm := range names[:fan] {
				s1 = append(s1, req("subscribe."+nm, 0))
			}
			s2 = append(s2, req("subscribe."+names[0], 0))
			// released while throttled requests may be in flight
			s1 = append(s1, req("unsubscribe."+names[0], 2), req("unsubscribe."+names[1], 2))
			s2 = append(s2, req("unsubscribe."+names[0], 2))
			sc.Conns = []mc.ConnSpec{conn(latest, s1...), conn(latest, s2...)}
			tm := &thrState{}
			sc.Monitors = func(w *mc.World) []mc.Monitor {
				return allMons(func() mc.Monitor {
					return &mc.ThrottleMon{Limit: n, StrictSlots: true,
						Governed:  func(r *mc.Req) bool { return tm.governed(w, r) },
						Throttles: func(w *mc.World) int { return tm.resets(w) },
					}
				})(w)
			}
			out = append(out, sc)
			if n == 1 {
				// a connection may go away at any moment (its throttled re-check in flight)
				d := *sc
				d.Name = fmt.Sprintf("thr/reset-disc/N%d-M%d", n, fan)
				d.Disconnects = true
				d.Props = []string{"C19", "C11"} // a slot kept by a connection that is gone is a leftover of it
				d.Bound = map[string]int{"quick": 1, "thorough": 2}
				out = append(out, &d)
				// reaccess events on the first resource before and after the reset:
				// a deferred re-check keeps the throttle of the reset
				e := *sc
				e.Name = fmt.Sprintf("thr/reset-reaccess/N%d-M%d", n, fan)
				e.Threads = []mc.Thread{{Name: "svc", Ops: []mc.Op{
					{Name: "t1.reaccess", Phase: 1, When: clientsDone, Do: func(w *mc.World) { w.Svc.Reaccess(names[0]) }},
					sc.Threads[0].Ops[0],
					op("t1.reaccess2", 1, func(w *mc.World) { w.Svc.Reaccess(names[0]) }),
				}}}
				// every access request but the first of a (connection, resource) pair is a re-check: answered last
				e.Slow = func(r *mc.Req) bool { return strings.HasPrefix(r.Subject, "access.") && !strings.HasSuffix(r.Name, "#0") }
				e.Bound = map[string]int{"quick": 2, "thorough": 3}
				out = append(out, &e)
			}
		}
		// one resource name shared by more connections than the limit: the
		// governed requests of a reset are counted per request, not per name
		if n == 1 || n == 2 {
			tm := &thrState{}
			sh := &mc.Scenario{
				Name:  fmt.Sprintf("thr/reset-shared/N%d", n),
				Props: []string{"C19"},
				Cfg:   func(c *server.Config) { c.ResetThrottle = n },
				Init:  func(w *mc.World) { w.Svc.Model(names[0], "n", `0`) },
				Threads: []mc.Thread{{Name: "svc", Ops: []mc.Op{
					{Name: "mutate+reset", Phase: 1, When: clientsDone, Do: func(w *mc.World) {
						w.Svc.Silent(names[0], func(r *mc.SvcRes) { r.M["n"] = `1` })
						w.Svc.Reset([]string{names[0]}, []string{names[0]})
					}},
				}}},
				Bound: map[string]int{"quick": 1, "thorough": 3},
			}
			for i := 0; i < n+2; i++ {
				sh.Conns = append(sh.Conns, conn(latest, req("subscribe."+names[0], 0)))
			}
			sh.Monitors = func(w *mc.World) []mc.Monitor {
				return allMons(func() mc.Monitor {
					return &mc.ThrottleMon{Limit: n, StrictSlots: true,
						Governed:  func(r *mc.Req) bool { return tm.governed(w, r) },
						Throttles: func(w *mc.World) int { return tm.resets(w) },
					}
				})(w)
			}
			out = append(out, sh)
		}
		// references brought by a change event on a loaded subscription are
		// followed under the throttle of its subscribe request as well
		if n == 1 || n == 2 {
			ev := &mc.Scenario{
				Name:  fmt.Sprintf("thr/reference-event/N%d", n),
				Props: []string{"C19"},
				Cfg:   func(c *server.Config) { c.ReferenceThrottle = n },
				Init: func(w *mc.World) {
					w.Svc.Model("test.root", "a", ref("test.ka"))
					for _, k := range []string{"ka", "kb", "kc", "kd", "ke"} {
						w.Svc.Model("test."+k, "n", `0`)
					}
				},
				Conns: []mc.ConnSpec{conn(latest, req("subscribe.test.root", 0))},
				Threads: []mc.Thread{{Name: "svc", Ops: []mc.Op{
					{Name: "root+4refs", Phase: 1, When: clientsDone, Do: func(w *mc.World) {
						w.Svc.Change("test.root", "b", ref("test.kb"), "c", ref("test.kc"), "d", ref("test.kd"), "e", ref("test.ke"))
					}},
				}}},
				Bound: map[string]int{"quick": 1, "thorough": 3},
			}
			ev.Monitors = func(w *mc.World) []mc.Monitor {
				return allMons(func() mc.Monitor {
					return &mc.ThrottleMon{Limit: n, StrictSlots: true,
						Governed:  func(r *mc.Req) bool { return strings.HasPrefix(r.Subject, "get.") },
						Throttles: func(w *mc.World) int { return 1 }, // one subscribe request
					}
				})(w)
			}
			out = append(out, ev)
		}
		// reference throttle: a tree with shared and cyclic children
		sc := &mc.Scenario{
			Name:  fmt.Sprintf("thr/reference/N%d", n),
			Props: []string{"C19"},
			Cfg:   func(c *server.Config) { c.ReferenceThrottle = n },
			Init: func(w *mc.World) {
				w.Svc.Model("test.root", "a", ref("test.ka"), "b", ref("test.kb"), "c", ref("test.kc"))
				w.Svc.Model("test.ka", "s", ref("test.shared"), "up", ref("test.root"))
				w.Svc.Model("test.kb", "s", ref("test.shared"))
				w.Svc.Model("test.kc", "self", ref("test.kc"))
				w.Svc.Model("test.shared", "n", `0`)
				w.Svc.Collection("test.col", ref("test.ka"), ref("test.kb"), ref("test.shared"))
			},
			Conns: []mc.ConnSpec{conn(latest, req("subscribe.test.root", 0), req("subscribe.test.col", 1))},
			Bound: map[string]int{"quick": 1, "thorough": 3},
		}
		if n == 1 {
			sc.Bound = map[string]int{"quick": 2, "thorough": -1}
		}
		sc.Monitors = func(w *mc.World) []mc.Monitor {
			return allMons(func() mc.Monitor {
				return &mc.ThrottleMon{Limit: n, StrictSlots: true,
					Governed: func(r *mc.Req) bool { return strings.HasPrefix(r.Subject, "get.") },
					Throttles: func(w *mc.World) int {
						k := 0
						for _, c := range w.Conns {
							for _, p := range c.Client.Pending {
								if p.Action == "subscribe" {
									k++
								}
							}
							for _, r := range c.Client.Resp {
								if r.Req != nil && r.Req.Action == "subscribe" {
									k++
								}
							}
						}
						return k
					},
					Expected: func(w *mc.World) int {
						// root brings 5 resources, col one more (its items are shared with root)
						n := 0
						for _, c := range w.Conns {
							sent := map[string]bool{}
							for _, p := range c.Client.Pending {
								sent[p.Method] = true
							}
							for _, r := range c.Client.Resp {
								if r.Req != nil {
									sent[r.Req.Method] = true
								}
							}
							if sent["subscribe.test.root"] {
								n += 5
							}
							if sent["subscribe.test.col"] {
								n++
							}
						}
						return n
					},
				}
			})(w)
		}
		out = append(out, sc)
	}
	// reference throttle while a query event holds the resource's queue
	for _, n := range []int{1, 2} {
		n := n
		sc := &mc.Scenario{
			Name:  fmt.Sprintf("thr/reference-query/N%d", n),
			Props: []string{"C19"},
			Cfg:   func(c *server.Config) { c.ReferenceThrottle = n },
			Init: func(w *mc.World) {
				queryInit(map[string]string{})(w)
				w.Svc.Collection("test.qc", ref("test.q?b"), ref("test.q?c"), ref("test.q?a"))
			},
			Conns: []mc.ConnSpec{conn(latest, req("subscribe.test.q?a", 0), req("subscribe.test.qc", 1))},
			Threads: []mc.Thread{{Name: "svc", Ops: []mc.Op{
				op("mutate+query", 1, func(w *mc.World) {
					w.Svc.Silent("test.q?a", func(r *mc.SvcRes) { r.M["v"] = `1` })
					w.Svc.QueryEvent("test.q", "_QE_1")
				}),
			}}},
			Menu:  queryMenu,
			Bound: map[string]int{"quick": 2, "thorough": 3},
		}
		sc.Monitors = func(w *mc.World) []mc.Monitor {
			return allMons(queryMon, func() mc.Monitor {
				return &mc.ThrottleMon{Limit: n, StrictSlots: true,
					Governed: func(r *mc.Req) bool { return strings.HasPrefix(r.Subject, "get.") },
					Throttles: func(w *mc.World) int {
						k := 0
						for _, c := range w.Conns {
							k += len(c.Client.Pending) + len(c.Client.Resp)
						}
						return k
					},
					Expected: func(w *mc.World) int {
						if len(w.Svc.Deleted) > 0 {
							return -1 // a deleted query resource is fetched again
						}
						n := 0
						c := w.Conns[0]
						sent := map[string]bool{}
						for _, p := range c.Client.Pending {
							sent[p.Method] = true
						}
						for _, r := range c.Client.Resp {
							if r.Req != nil {
								sent[r.Req.Method] = true
							}
						}
						if sent["subscribe.test.q?a"] {
							n++
						}
						if sent["subscribe.test.qc"] {
							n += 3 // qc, q?b, q?c
						}
						return n
					},
				}
			})(w)
		}
		out = append(out, sc)
	}
	return out
}

// quickBound: full bound for the main variant, one deviation less in quick for the others.
func quickBound(main bool) map[string]int {
	if main {
		return map[string]int{"quick": 2, "thorough": 3}
	}
	return map[string]int{"quick": 1, "thorough": 3}
}

// noResetWindow holds when no reset re-fetch can be under way: the gateway is
// internally quiet and no get request is unanswered.
func noResetWindow(w *mc.World) bool {
	if !w.Quiet() {
		return false
	}
	for _, r := range w.MQ.Pending() {
		if subjectIs(r, "get.") {
			return false
		}
	}
	return true
}

// isRefetch reports whether r is a get request for a resource whose earlier
// get was answered successfully (a reset re-fetch).
func isRefetch(w *mc.World, r *mc.Req) bool {
	if !subjectIs(r, "get.") {
		return false
	}
	for _, o := range w.MQ.Requests() {
		if o.Seq < r.Seq && o.Subject == r.Subject && o.CPayload == r.CPayload && o.Outcome == "ok" {
			return true
		}
	}
	return false
}

// clientsDone holds once every client script is exhausted and answered, so
// that all later get/access requests are caused by resets.
func clientsDone(w *mc.World) bool {
	for _, c := range w.Conns {
		if len(c.Client.Pending) > 0 {
			return false
		}
		// later phases (unsubscribes after the reset) may still be ahead
		for _, rq := range c.Spec.Script[len(c.Spec.Script)-c.Remaining():] {
			if rq.Phase <= 0 {
				return false
			}
		}
	}
	return true
}

type thrState struct{}

func (t *thrState) resets(w *mc.World) int {
	n := 0
	for _, r := range w.MQ.Log() {
		if r.Kind == "EVT" && r.Subject == "system.reset" {
			n++
		}
	}
	return n
}

// governed reports whether r is a request that a system reset has to make
// through its throttle: the first get request for a resource name after a
// reset listing a matching resource pattern, or the first access request for
// a (connection, resource) pair after a reset listing a matching access
// pattern, the pair having had an access request before that reset (it is an
// established subscription being re-checked, not a new subscribe). Requests
// made for other reasons - a reaccess event or a token change after the
// reset's own re-check has been issued - are not governed. This is an
// inference from the traffic (used for the "outside-throttle" rule only; slot
// accounting and the limit work on the exact Req.Throttled flag): it is only
// drawn for resets sent while the gateway was internally quiet, and only for
// the most recent... first request after such a reset.
func (t *thrState) governed(w *mc.World, r *mc.Req) bool {
	typ := ""
	switch {
	case strings.HasPrefix(r.Subject, "get."):
		typ = "get."
	case strings.HasPrefix(r.Subject, "access."):
		typ = "access."
	default:
		return false
	}
	name := r.Subject[len(typ):]
	var f struct {
		CID string `json:"cid"`
	}
	json.Unmarshal(r.Payload, &f)
	reqs := w.MQ.Requests()
	ri := -1
	for _, l := range w.MQ.Log() {
		if l.Kind != "EVT" || l.Subject != "system.reset" {
			continue
		}
		ri++
		// a reset sent while earlier events were still waiting to be processed
		// is not judged: requests made after it may belong to those events
		if l.Time >= r.Time || ri >= len(w.Svc.ResetQuiet) || !w.Svc.ResetQuiet[ri] {
			continue
		}
		var rs struct {
			Resources []string `json:"resources"`
			Access    []string `json:"access"`
		}
		json.Unmarshal([]byte(l.Payload), &rs)
		pats := rs.Resources
		if typ == "access." {
			pats = rs.Access
		}
		match := false
		for _, p := range pats {
			if rp := rescache.ParseResourcePattern(p); rp.IsValid() && rp.Match(name) {
				match = true
			}
		}
		if !match {
			continue
		}
		same := func(o *mc.Req) bool {
			if o.Subject != r.Subject {
				return false
			}
			var g struct {
				CID string `json:"cid"`
			}
			json.Unmarshal(o.Payload, &g)
			return g.CID == f.CID
		}
		before, between := false, false
		for _, o := range reqs {
			if o == r || !same(o) {
				continue
			}
			if o.Time < l.Time {
				before = true
			}
			if o.Time >= l.Time && o.Seq < r.Seq {
				between = true
			}
		}
		if before && !between {
			return true
		}
	}
	return false
}

func (t *thrState) afterReset(w *mc.World, r *mc.Req) bool {
	first := 0
	for _, l := range w.MQ.Log() {
		if l.Kind == "EVT" && l.Subject == "system.reset" {
			first = l.Time
			break
		}
	}
	return first != 0 && r.Time >= first && (strings.HasPrefix(r.Subject, "get.") || strings.HasPrefix(r.Subject, "access."))
}

// ---------------------------------------------------------------------------
// ord/*: per-resource event order (C03)
// ---------------------------------------------------------------------------

func ordScenarios(tier string) []*mc.Scenario {
	var out []*mc.Scenario
	stream := func(key string, n int, phase int) []mc.Op {
		var ops []mc.Op
		for i := 0; i < n; i++ {
			ops = append(ops, op(key+"+", phase, func(w *mc.World) { w.Svc.StreamNext(key) }))
		}
		return ops
	}
	// stream on x while references to x and a not-yet-cached child of m come and go
	out = append(out, &mc.Scenario{
		Name: "ord/model-loading", Props: []string{"C03"}, Init: basicInit, Monitors: allMons(seqMon),
		Conns: []mc.ConnSpec{
			conn(latest, req("subscribe.test.m", 0), req("subscribe.test.x", 2)),
			conn(latest, req("subscribe.test.x", 1), req("unsubscribe.test.x", 3)),
		},
		Threads: []mc.Thread{
			{Name: "stream", Ops: stream("test.x", 6, 1)},
			{Name: "svc", Ops: []mc.Op{
				op("m.y=y", 1, func(w *mc.World) { w.Svc.Change("test.m", "y", ref("test.y")) }),
				op("m.r=del", 2, func(w *mc.World) { w.Svc.Change("test.m", "r", mc.DeleteAction) }),
				op("m.r=x", 2, func(w *mc.World) { w.Svc.Change("test.m", "r", ref("test.x")) }),
			}},
		},
	})
	// stream on the parent itself while its references load
	out = append(out, &mc.Scenario{
		Name: "ord/parent-stream", Props: []string{"C03"}, Init: func(w *mc.World) {
			basicInit(w)
			w.Svc.Model("test.m", "n", `0`, "r", ref("test.x"))
		}, Monitors: allMons(seqMon),
		Conns: []mc.ConnSpec{
			conn(latest, req("subscribe.test.m", 0)),
			conn("1.2.0", req("subscribe.test.m", 1)),
		},
		Threads: []mc.Thread{
			{Name: "stream", Ops: stream("test.m", 6, 1)},
			{Name: "svc", Ops: []mc.Op{
				op("m.y=y", 1, func(w *mc.World) { w.Svc.Change("test.m", "y", ref("test.y")) }),
				op("m.reaccess", 1, func(w *mc.World) { w.Svc.Reaccess("test.m") }),
				op("m.z=p", 2, func(w *mc.World) { w.Svc.Change("test.m", "z", ref("test.p")) }),
			}},
		},
	})
	// stream on a collection
	out = append(out, &mc.Scenario{
		Name: "ord/collection-stream", Props: []string{"C03"}, Init: func(w *mc.World) {
			basicInit(w)
			w.Svc.Collection("test.c", ref("test.x"))
		}, Monitors: allMons(seqMon),
		Conns: []mc.ConnSpec{
			conn(latest, req("subscribe.test.c", 0)),
			conn(latest, req("subscribe.test.c", 1), req("unsubscribe.test.c", 2), req("subscribe.test.c", 2)),
		},
		Threads: []mc.Thread{
			{Name: "stream", Ops: stream("test.c", 6, 1)},
			{Name: "svc", Ops: []mc.Op{
				op("c.add0=y", 1, func(w *mc.World) { w.Svc.Add("test.c", 0, ref("test.y")) }),
				op("c.rm0", 2, func(w *mc.World) { w.Svc.Remove("test.c", 0) }),
			}},
		},
	})
	// a second subscribe to a resource that is re-queueing behind a slow reference load
	out = append(out, &mc.Scenario{
		Name: "ord/resubscribe-while-loading", Props: []string{"C03"}, Init: func(w *mc.World) {
			basicInit(w)
			w.Svc.Collection("test.c", ref("test.x"))
			w.Svc.Model("test.m", "n", `0`)
		}, Monitors: allMons(seqMon),
		Slow: func(r *mc.Req) bool { return r.Subject == "get.test.y" },
		Conns: []mc.ConnSpec{
			conn(latest, req("subscribe.test.c", 0), req("subscribe.test.m", 0), req("subscribe.test.c", 2), req("subscribe.test.m", 2), req("get.test.c", 2)),
		},
		Threads: []mc.Thread{
			{Name: "svc", Ops: []mc.Op{
				op("c.add0=y", 1, func(w *mc.World) { w.Svc.Add("test.c", 0, ref("test.y")) }),
				op("m.y=y", 1, func(w *mc.World) { w.Svc.Change("test.m", "y", ref("test.y")) }),
			}},
			{Name: "streamc", Ops: stream("test.c", 4, 1)},
			{Name: "streamm", Ops: stream("test.m", 4, 1)},
		},
	})
	// the delete event closes the stream: holders that have followed state
	// events before (and a late subscriber whose snapshot already contains
	// them) are told
	out = append(out, &mc.Scenario{
		Name: "ord/delete-after-events", Props: []string{"C03"}, Init: basicInit, Monitors: allMons(seqMon),
		Conns: []mc.ConnSpec{
			conn(latest, req("subscribe.test.x", 0), req("subscribe.test.c", 0)),
			conn(latest, req("subscribe.test.x", 2)),
		},
		Threads: []mc.Thread{
			{Name: "stream", Ops: stream("test.x", 2, 1)},
			{Name: "svc", Ops: []mc.Op{
				op("x.delete", 3, func(w *mc.World) { w.Svc.Delete("test.x") }),
			}},
		},
	})
	// reset re-fetch in the middle of a stream (state events may be superseded)
	out = append(out, &mc.Scenario{
		Name: "ord/reset-window", Props: []string{"C03", "C12"}, Init: basicInit, Monitors: allMons(seqMonRelax),
		Conns: []mc.ConnSpec{
			conn(latest, req("subscribe.test.x", 0)),
			conn(latest, req("subscribe.test.m", 0)),
		},
		Threads: []mc.Thread{
			{Name: "stream", Ops: stream("test.x", 6, 1)},
			{Name: "svc", Ops: []mc.Op{
				op("reset", 1, func(w *mc.World) { w.Data["reset"] = true; w.Svc.Reset([]string{"test.x"}, nil) }),
				op("reset2", 2, func(w *mc.World) { w.Svc.Reset([]string{"test.*"}, nil) }),
			}},
		},
	})
	// a reset whose re-fetch may fail; the stream events are only emitted
	// outside of reset windows (events inside a window are dropped by design
	// and superseded by the re-fetch), so every one of them must be delivered
	guarded := func(ops []mc.Op) []mc.Op {
		for i := range ops {
			ops[i].When = noResetWindow
		}
		return ops
	}
	out = append(out, &mc.Scenario{
		Name: "ord/reset-failed", Props: []string{"C03", "C12"}, Init: basicInit, Monitors: allMons(seqMon),
		Conns: []mc.ConnSpec{
			conn(latest, req("subscribe.test.x", 0)),
			conn(latest, req("subscribe.test.m", 0)),
		},
		Threads: []mc.Thread{
			{Name: "stream", Ops: guarded(stream("test.x", 6, 1))},
			{Name: "svc", Ops: []mc.Op{
				op("reset", 1, func(w *mc.World) { w.Data["reset"] = true; w.Svc.Reset([]string{"test.x"}, nil) }),
				op("reset2", 2, func(w *mc.World) { w.Svc.Reset([]string{"test.*"}, nil) }),
			}},
		},
		Menu: func(w *mc.World, r *mc.Req) []mc.Outcome {
			if isRefetch(w, r) {
				return []mc.Outcome{w.OK(r), mc.ResErr("system.internalError"), mc.Timeout(), mc.Raw("wrongtype", `{"result":{"collection":[]}}`)}
			}
			return nil
		},
	})
	return out
}

// ---------------------------------------------------------------------------
// gc/*: reference graphs and the collector (C02)
// ---------------------------------------------------------------------------

func gcScenarios(tier string) []*mc.Scenario {
	var out []*mc.Scenario
	graphs := map[string]func(w *mc.World){
		"diamond": func(w *mc.World) {
			s := w.Svc
			s.Model("test.a", "l", ref("test.b"), "r", ref("test.c"))
			s.Model("test.b", "d", ref("test.d"))
			s.Model("test.c", "d", ref("test.d"))
			s.Model("test.d", "n", `0`)
			s.Model("test.e", "n", `0`)
		},
		"cycle": func(w *mc.World) {
			s := w.Svc
			s.Model("test.a", "l", ref("test.b"))
			s.Model("test.b", "d", ref("test.c"))
			s.Model("test.c", "d", ref("test.a"), "e", ref("test.d"))
			s.Model("test.d", "self", ref("test.d"))
			s.Model("test.e", "n", `0`)
		},
		"errors": func(w *mc.World) {
			s := w.Svc
			s.Model("test.a", "l", ref("test.b"), "r", ref("test.gone"))
			s.Model("test.b", "d", ref("test.gone"), "c", ref("test.c"))
			s.Model("test.c", "n", `0`)
			s.Model("test.d", "a", ref("test.a"))
			s.Model("test.e", "n", `0`)
			s.Error("test.gone", "system.notFound")
		},
	}
	for _, v := range []string{latest, ""} {
		for _, g := range []string{"diamond", "cycle", "errors"} {
			g, v := g, v
			tag := v
			if v == "" {
				tag = "legacy"
			}
			out = append(out, &mc.Scenario{
				Name: "gc/" + g + "/" + tag, Props: []string{"C02"}, Init: graphs[g], Monitors: allMons(),
				Conns: []mc.ConnSpec{conn(v,
					req("subscribe.test.a", 0), req("subscribe.test.c", 0), req("subscribe.test.e", 0),
					req("unsubscribe.test.a", 2), req("subscribe.test.b", 3), req("unsubscribe.test.c", 3), req("unsubscribe.test.e", 4))},
				Threads: []mc.Thread{{Name: "svc", Ops: []mc.Op{
					// second reference from the same parent, then a new parent of a shared child
					op("e.k1=d", 1, func(w *mc.World) { w.Svc.Change("test.e", "k1", ref("test.d")) }),
					op("e.k2=d", 1, func(w *mc.World) { w.Svc.Change("test.e", "k2", ref("test.d")) }),
					op("e.p=b", 1, func(w *mc.World) { w.Svc.Change("test.e", "p", ref("test.b")) }),
					op("e.k1,k2=del", 2, func(w *mc.World) { w.Svc.Change("test.e", "k1", mc.DeleteAction, "k2", mc.DeleteAction) }),
					op("c.x=e", 2, func(w *mc.World) { w.Svc.Change("test.c", "x", ref("test.e")) }),
					op("e.p=del", 3, func(w *mc.World) { w.Svc.Change("test.e", "p", mc.DeleteAction) }),
					op("c.x=a", 3, func(w *mc.World) { w.Svc.Change("test.c", "x", ref("test.a")) }),
				}}},
			})
		}
	}
	// a child reached over two paths from the released root while a loading
	// parent references it (the collector visits it twice)
	for _, v := range []string{latest, ""} {
		v := v
		tag := v
		if v == "" {
			tag = "legacy"
		}
		out = append(out, &mc.Scenario{
			Name: "gc/diamond-loading/" + tag, Props: []string{"C02"}, Monitors: allMons(), Bound: quickBound(v == latest),
			Init: func(w *mc.World) {
				s := w.Svc
				s.Model("test.a", "l", ref("test.b"), "r", ref("test.c"), "d", ref("test.d"))
				s.Model("test.b", "d", ref("test.d"))
				s.Collection("test.c", ref("test.d"), ref("test.d"))
				s.Model("test.d", "n", `0`, "e", ref("test.e"))
				s.Model("test.e", "n", `0`)
				s.Model("test.f", "d", ref("test.d"), "s", ref("test.s"))
				s.Model("test.s", "n", `0`)
				s.Collection("test.g", ref("test.e"), ref("test.s"))
			},
			Conns: []mc.ConnSpec{conn(v, req("subscribe.test.a", 0), req("subscribe.test.f", 1), req("unsubscribe.test.a", 2), req("subscribe.test.g", 2), req("unsubscribe.test.f", 3))},
			Threads: []mc.Thread{{Name: "svc", Ops: []mc.Op{
				op("d.n=1", 3, func(w *mc.World) { w.Svc.Change("test.d", "n", `1`) }),
			}}},
		})
	}
	// members of a reference cycle (a self reference, a cycle of two) that are
	// sent and then released as roots while a parent that is still loading
	// (one of its other references is slow) references them: the client drops
	// them, so the parent's response has to bring them again
	out = append(out, &mc.Scenario{
		Name: "gc/cycle-loading", Props: []string{"C02"}, Monitors: allMons(),
		Init: func(w *mc.World) {
			s := w.Svc
			s.Model("test.a", "self", ref("test.a"), "n", `0`)
			s.Model("test.b", "r", ref("test.c"))
			s.Model("test.c", "r", ref("test.b"))
			s.Model("test.d", "n", `0`)
			s.Model("test.p", "x", ref("test.a"), "y", ref("test.b"), "z", ref("test.d"))
			s.Model("test.m", "n", `0`)
		},
		Slow: func(r *mc.Req) bool { return r.Subject == "get.test.d" },
		Conns: []mc.ConnSpec{conn(latest, req("subscribe.test.a", 0), req("subscribe.test.b", 0), req("subscribe.test.m", 0), req("subscribe.test.p", 1),
			req("unsubscribe.test.a", 2), req("unsubscribe.test.b", 2))},
		Threads: []mc.Thread{{Name: "svc", Ops: []mc.Op{
			// a change event on a sent parent that releases a cycle member while p is loading
			op("m.r=c", 1, func(w *mc.World) { w.Svc.Change("test.m", "r", ref("test.c")) }),
			op("m.r=0", 2, func(w *mc.World) { w.Svc.Change("test.m", "r", `0`) }),
			op("a.n=1", 3, func(w *mc.World) { w.Svc.Change("test.a", "n", `1`) }),
		}}},
	})
	// one change event sets a reference to an uncached resource (slow get) and
	// one to a resource the client holds only directly, which it then releases
	out = append(out, &mc.Scenario{
		Name: "gc/change-two-refs", Props: []string{"C02"}, Monitors: allMons(),
		Init: func(w *mc.World) {
			s := w.Svc
			s.Model("test.m", "n", `0`)
			s.Model("test.c", "n", `0`)
			s.Model("test.d", "n", `0`)
			s.Collection("test.l")
		},
		Slow:  func(r *mc.Req) bool { return r.Subject == "get.test.d" },
		Conns: []mc.ConnSpec{conn(latest, req("subscribe.test.m", 0), req("subscribe.test.c", 0), req("subscribe.test.l", 0), req("unsubscribe.test.c", 2))},
		Threads: []mc.Thread{{Name: "svc", Ops: []mc.Op{
			op("m.a=d,b=c", 1, func(w *mc.World) { w.Svc.Change("test.m", "a", ref("test.d"), "b", ref("test.c")) }),
			op("l.add=c", 1, func(w *mc.World) { w.Svc.Add("test.l", 0, ref("test.c")) }),
			op("l.add=d", 1, func(w *mc.World) { w.Svc.Add("test.l", 0, ref("test.d")) }),
			op("c.n=1", 3, func(w *mc.World) { w.Svc.Change("test.c", "n", `1`) }),
		}}},
	})
	// references held through collections: add of an already sent child,
	// removal while a loading parent references it
	for _, v := range []string{latest, "1.2.0"} {
		v := v
		out = append(out, &mc.Scenario{
			Name: "gc/collection-refs/" + v, Props: []string{"C02"}, Monitors: allMons(), Bound: quickBound(v == latest),
			Init: func(w *mc.World) {
				s := w.Svc
				s.Model("test.a", "k1", ref("test.x"))
				s.Collection("test.l", `"p"`)
				s.Collection("test.b")
				s.Model("test.p", "x", ref("test.x"), "y", ref("test.y"))
				s.Model("test.x", "n", `0`)
				s.Model("test.y", "n", `0`)
			},
			Conns: []mc.ConnSpec{conn(v, req("subscribe.test.a", 0), req("subscribe.test.l", 0), req("subscribe.test.b", 0), req("unsubscribe.test.a", 2))},
			Threads: []mc.Thread{{Name: "svc", Ops: []mc.Op{
				op("l.add=x", 1, func(w *mc.World) { w.Svc.Add("test.l", 1, ref("test.x")) }),
				op("l.add=x2", 1, func(w *mc.World) { w.Svc.Add("test.l", 0, ref("test.x")) }),
				op("b.add=p", 1, func(w *mc.World) { w.Svc.Add("test.b", 0, ref("test.p")) }),
				op("l.rm=x", 2, func(w *mc.World) { w.Svc.Remove("test.l", 2) }),
				op("l.rm=x2", 2, func(w *mc.World) { w.Svc.Remove("test.l", 0) }),
				op("b.rm=p", 3, func(w *mc.World) { w.Svc.Remove("test.b", 0) }),
				op("l.add=y", 3, func(w *mc.World) { w.Svc.Add("test.l", 0, ref("test.y")) }),
			}}},
		})
	}
	// DESIGN 7(9): double reference from one parent, then a loading second parent
	out = append(out, &mc.Scenario{
		Name: "gc/double-ref", Props: []string{"C02"}, Monitors: allMons(),
		Init: func(w *mc.World) {
			s := w.Svc
			s.Model("test.a", "k1", ref("test.x"))
			s.Collection("test.b")
			s.Model("test.p", "x", ref("test.x"), "y", ref("test.y"))
			s.Model("test.x", "n", `0`)
			s.Model("test.y", "n", `0`)
		},
		Conns: []mc.ConnSpec{conn(latest, req("subscribe.test.a", 0), req("subscribe.test.b", 0))},
		Threads: []mc.Thread{{Name: "svc", Ops: []mc.Op{
			op("a.k2=x", 1, func(w *mc.World) { w.Svc.Change("test.a", "k2", ref("test.x")) }),
			op("b.add=p", 1, func(w *mc.World) { w.Svc.Add("test.b", 0, ref("test.p")) }),
			op("a.k1,k2=del", 1, func(w *mc.World) { w.Svc.Change("test.a", "k1", mc.DeleteAction, "k2", mc.DeleteAction) }),
			op("x.n=1", 2, func(w *mc.World) { w.Svc.Change("test.x", "n", `1`) }),
		}}},
	})
	return out
}
