package checks

import (
	"fmt"
	"strings"

	"github.com/resgateio/resgate/server"
	"verif/harness/mc"
)

// ---------------------------------------------------------------------------
// acc/*: read gating (C04), call gating (C05), revocation (C06)
// ---------------------------------------------------------------------------

func tokenOp(i int, tok, tid string, phase int) mc.Op {
	return op(fmt.Sprintf("token-c%d=%s", i+1, tok), phase, func(w *mc.World) { w.Svc.TokenEvent(i, tok, tid) })
}

func accessMenu(w *mc.World, r *mc.Req) []mc.Outcome {
	if subjectIs(r, "access.") {
		return []mc.Outcome{w.OK(r), mc.Raw("deny", `{"result":{"get":false}}`), mc.Raw("noresult", `{"result":null}`),
			mc.ResErr("system.accessDenied"), mc.ResErr("custom.error"), mc.Timeout(), mc.NoResponders(), mc.Raw("badjson", `{"result":`)}
	}
	return nil
}

func accScenarios(tier string) []*mc.Scenario {
	var out []*mc.Scenario
	// read requests with every access outcome and a token history
	out = append(out, &mc.Scenario{
		Name: "acc/read-outcomes", Props: []string{"C04"}, Init: basicInit, Monitors: allMons(),
		Conns: []mc.ConnSpec{conn(latest,
			req("subscribe.test.m", 1), req("get.test.m", 1), req("subscribe.test.x", 2), req("get.test.c", 2), req("subscribe.test.m", 3))},
		Threads: []mc.Thread{{Name: "svc", Ops: []mc.Op{
			tokenOp(0, `{"u":1}`, "", 0), tokenOp(0, `{"u":2}`, "", 2), tokenOp(0, `null`, "", 3),
		}}},
		Menu: accessMenu,
	})
	out = append(out, &mc.Scenario{
		Name: "acc/read-resource-response", Props: []string{"C04"}, Init: func(w *mc.World) {
			basicInit(w)
			w.Svc.Call = func(name, method, payload string) string { return `{"resource":{"rid":"test.y"}}` }
		}, Monitors: allMons(),
		Conns: []mc.ConnSpec{conn(latest, reqp("call.test.m.mk", `{}`, 0), reqp("new.test.c", `{}`, 1), reqp("auth.test.m.login", `{}`, 1))},
		Menu: func(w *mc.World, r *mc.Req) []mc.Outcome {
			if r.Subject == "access.test.y" {
				return []mc.Outcome{w.OK(r), mc.Raw("deny", `{"result":{"get":false,"call":"*"}}`), mc.Timeout()}
			}
			return nil
		},
	})
	// invalidation triggers between answer and use
	out = append(out, &mc.Scenario{
		Name: "acc/read-triggers", Props: []string{"C04", "C06"}, Init: basicInit, Monitors: allMons(),
		Conns: []mc.ConnSpec{conn(latest, req("subscribe.test.m", 1), req("get.test.m", 3), req("subscribe.test.x", 3), req("unsubscribe.test.m", 5), req("get.test.m", 5))},
		Threads: []mc.Thread{{Name: "svc", Ops: []mc.Op{
			tokenOp(0, `{"u":1}`, "", 0),
			tokenOp(0, `{"u":2}`, "", 2),
			op("m.reaccess", 2, func(w *mc.World) { w.Svc.Reaccess("test.m") }),
			op("reset-access", 4, func(w *mc.World) { w.Svc.Reset(nil, []string{"test.*"}) }),
			op("reset-other", 4, func(w *mc.World) { w.Svc.Reset(nil, []string{"other.>"}) }),
		}}},
		Menu: func(w *mc.World, r *mc.Req) []mc.Outcome {
			if subjectIs(r, "access.") {
				return []mc.Outcome{w.OK(r), mc.Raw("deny", `{"result":{"get":false}}`), mc.Timeout()}
			}
			return nil
		},
	})
	// token change while the subscription is loading, then a call (DESIGN 7(4))
	for _, list := range []string{"*", "set", "set,get", "sets", "x,set", ""} {
		list := list
		out = append(out, &mc.Scenario{
			Name: "acc/call-list/" + list, Props: []string{"C05"}, Init: func(w *mc.World) {
				basicInit(w)
				w.Svc.Access = func(_, _, _, _ string) string { return fmt.Sprintf(`{"get":true,"call":%q}`, list) }
			}, Monitors: allMons(),
			Conns: []mc.ConnSpec{conn(latest,
				req("subscribe.test.m", 1), reqp("call.test.m.set", `{}`, 3), reqp("call.test.m.se", `{}`, 3), reqp("call.test.m.sets", `{}`, 3),
				reqp("call.test.x.set", `{}`, 3), reqp("new.test.c", `{}`, 3), reqp("auth.test.m.set", `{}`, 3))},
			Threads: []mc.Thread{{Name: "svc", Ops: []mc.Op{
				tokenOp(0, `{"u":1}`, "", 0),
				tokenOp(0, `{"u":2}`, "", 2),
				op("m.reaccess", 4, func(w *mc.World) { w.Svc.Reaccess("test.m") }),
			}}},
		})
	}
	// revocation with an event stream across the trigger
	for _, trig := range []string{"token", "reaccess", "reset"} {
		trig := trig
		out = append(out, &mc.Scenario{
			Name: "acc/revoke/" + trig, Props: []string{"C06", "C03"}, Init: func(w *mc.World) {
				basicInit(w)
			}, Monitors: allMons(seqMon),
			Conns: []mc.ConnSpec{
				conn(latest, req("subscribe.test.x", 1), req("subscribe.test.m", 1)),
				conn(latest, req("subscribe.test.x", 1)),
			},
			Threads: []mc.Thread{
				{Name: "stream", Ops: []mc.Op{
					op("x+", 2, func(w *mc.World) { w.Svc.StreamNext("test.x") }),
					op("x+", 2, func(w *mc.World) { w.Svc.StreamNext("test.x") }),
					op("x+", 4, func(w *mc.World) { w.Svc.StreamNext("test.x") }),
					op("x+", 4, func(w *mc.World) { w.Svc.StreamNext("test.x") }),
				}},
				{Name: "trig", Ops: []mc.Op{
					tokenOp(0, `{"u":1}`, "", 0),
					op("trigger", 3, func(w *mc.World) {
						switch trig {
						case "token":
							w.Svc.TokenEvent(0, `{"u":2}`, "")
						case "reaccess":
							w.Svc.Reaccess("test.x")
						case "reset":
							w.Svc.Reset(nil, []string{"test.x"})
						}
					}),
					op("trigger2", 3, func(w *mc.World) {
						switch trig {
						case "token":
							w.Svc.TokenEvent(0, `{"u":2}`, "")
						case "reaccess":
							w.Svc.Reaccess("test.x")
						case "reset":
							w.Svc.Reset(nil, []string{"test.>", "test.x"})
						}
					}),
				}},
			},
			Menu: func(w *mc.World, r *mc.Req) []mc.Outcome {
				if r.Subject == "access.test.x" {
					return []mc.Outcome{w.OK(r), mc.Raw("deny", `{"result":{"get":false}}`), mc.ResErr("system.internalError"), mc.Timeout()}
				}
				return nil
			},
		})
	}
	// trigger and events while the directly subscribed resource is still
	// waiting for a slow reference: the deferred re-check must come before the
	// queued events are released
	for _, trig := range []string{"token", "reaccess", "reset", "token/sent", "reaccess/sent", "reset/sent"} {
		trig := trig
		// plain: the trigger falls into the initial load of the subscribe;
		// sent: the resource is already sent and queues again behind the load
		// of a reference brought by a change event
		sent := strings.HasSuffix(trig, "/sent")
		trig = strings.TrimSuffix(trig, "/sent")
		subPhase := 1
		trigOps := []mc.Op{tokenOp(0, `{"u":1}`, "", 0)}
		if sent {
			subPhase = 0
			trigOps = append(trigOps, op("m.r=x", 1, func(w *mc.World) { w.Svc.Change("test.m", "r", ref("test.x")) }))
		}
		name := "acc/revoke-loading/" + trig
		if sent {
			name += "/sent"
		}
		out = append(out, &mc.Scenario{
			Name: name, Props: []string{"C06", "C03"}, Init: func(w *mc.World) {
				basicInit(w)
				if sent {
					w.Svc.Model("test.m", "n", `0`)
				} else {
					w.Svc.Model("test.m", "n", `0`, "r", ref("test.x"))
				}
			}, Monitors: allMons(seqMon),
			Slow:  func(r *mc.Req) bool { return r.Subject == "get.test.x" },
			Conns: []mc.ConnSpec{conn(latest, req("subscribe.test.m", subPhase))},
			Threads: []mc.Thread{
				{Name: "trig", Ops: append(trigOps,
					op("trigger", 2, func(w *mc.World) {
						switch trig {
						case "token":
							w.Svc.TokenEvent(0, `{"u":2}`, "")
						case "reaccess":
							w.Svc.Reaccess("test.m")
						case "reset":
							w.Svc.Reset(nil, []string{"test.m"})
						}
					}),
				)},
				{Name: "stream", Ops: []mc.Op{
					op("m+", 3, func(w *mc.World) { w.Svc.StreamNext("test.m") }),
					op("m+", 3, func(w *mc.World) { w.Svc.StreamNext("test.m") }),
				}},
			},
			Menu: func(w *mc.World, r *mc.Req) []mc.Outcome {
				if r.Subject == "access.test.m" {
					return []mc.Outcome{w.OK(r), mc.Raw("deny", `{"result":{"get":false}}`), mc.Timeout()}
				}
				return nil
			},
		})
	}
	// a grant obtained for a direct subscription that was given up while the
	// resource stays held indirectly, invalidated, then used again
	for _, trig := range []string{"token", "reaccess", "reset"} {
		trig := trig
		out = append(out, &mc.Scenario{
			Name: "acc/indirect-grant/" + trig, Props: []string{"C04", "C05"}, Init: basicInit, Monitors: allMons(),
			Conns: []mc.ConnSpec{conn(latest,
				req("subscribe.test.m", 1), req("subscribe.test.x", 1), reqp("call.test.x.set", `{}`, 1), req("unsubscribe.test.x", 2),
				req("subscribe.test.x", 4), reqp("call.test.x.set", `{}`, 4), req("get.test.x", 5))},
			Threads: []mc.Thread{{Name: "svc", Ops: []mc.Op{
				tokenOp(0, `{"u":1}`, "", 0),
				op("trigger", 3, func(w *mc.World) {
					switch trig {
					case "token":
						w.Svc.TokenEvent(0, `{"u":2}`, "")
					case "reaccess":
						w.Svc.Reaccess("test.x")
					case "reset":
						w.Svc.Reset(nil, []string{"test.x"})
					}
				}),
			}}},
			Menu: func(w *mc.World, r *mc.Req) []mc.Outcome {
				if r.Subject == "access.test.x" {
					return []mc.Outcome{w.OK(r), mc.Raw("deny", `{"result":{"get":false}}`)}
				}
				return nil
			},
		})
	}
	// HTTP
	out = append(out, &mc.Scenario{
		Name: "acc/http", Props: []string{"C04", "C05", "C11"}, Init: basicInit, Monitors: allMons(),
		Cfg: func(c *server.Config) { m := "put"; c.PUTMethod = &m },
		Threads: []mc.Thread{{Name: "http", Ops: []mc.Op{
			op("GET m", 0, func(w *mc.World) { w.HTTP(mc.HTTPReq{Method: "GET", URL: "/api/test/m"}) }),
			op("POST m/set", 1, func(w *mc.World) { w.HTTP(mc.HTTPReq{Method: "POST", URL: "/api/test/m/set", Body: `{"a":1}`}) }),
			op("PUT x", 2, func(w *mc.World) { w.HTTP(mc.HTTPReq{Method: "PUT", URL: "/api/test/x", Body: `{"n":1}`}) }),
			op("GET c", 2, func(w *mc.World) { w.HTTP(mc.HTTPReq{Method: "GET", URL: "/api/test/c"}) }),
		}}},
		Menu: func(w *mc.World, r *mc.Req) []mc.Outcome {
			if subjectIs(r, "access.") {
				return []mc.Outcome{w.OK(r), mc.Raw("deny", `{"result":{"get":false,"call":"set"}}`), mc.ResErr("system.accessDenied"), mc.Timeout()}
			}
			if subjectIs(r, "get.") {
				return []mc.Outcome{w.OK(r), mc.Timeout()}
			}
			return nil
		},
	})
	// token events for the temporary connection of an HTTP call while its
	// access (or header auth) request is outstanding: the call must carry
	// the token current when it is made
	for _, method := range []string{"POST", "PUT"} {
		method := method
		out = append(out, &mc.Scenario{
			Name: "acc/http-token/" + method, Props: []string{"C05", "C10"}, Init: basicInit, Monitors: allMons(),
			Cfg:  func(c *server.Config) { m := "put"; c.PUTMethod = &m },
			Slow: func(r *mc.Req) bool { return subjectIs(r, "access.") },
			Threads: []mc.Thread{
				{Name: "http", Ops: []mc.Op{
					op(method+" m", 0, func(w *mc.World) {
						if method == "POST" {
							w.HTTP(mc.HTTPReq{Method: "POST", URL: "/api/test/m/set", Body: `{"a":1}`})
						} else {
							w.HTTP(mc.HTTPReq{Method: "PUT", URL: "/api/test/m", Body: `{"a":1}`})
						}
					}),
				}},
				{Name: "svc", Ops: []mc.Op{
					{Name: "token=1", Phase: 0, When: func(w *mc.World) bool { return w.Svc.HTTPCID() != "" },
						Do: func(w *mc.World) { w.Svc.TokenEventCID(w.Svc.HTTPCID(), `{"u":1}`) }},
					{Name: "token=2", Phase: 0, When: func(w *mc.World) bool { return w.Svc.HTTPCID() != "" },
						Do: func(w *mc.World) { w.Svc.TokenEventCID(w.Svc.HTTPCID(), `{"u":2}`) }},
				}},
			},
			Menu: func(w *mc.World, r *mc.Req) []mc.Outcome {
				if subjectIs(r, "access.") {
					return []mc.Outcome{w.OK(r), mc.Raw("deny", `{"result":{"get":false,"call":"set"}}`), mc.Timeout()}
				}
				return nil
			},
		})
	}
	return out
}

// ---------------------------------------------------------------------------
// iso/*: connection isolation (C10)
// ---------------------------------------------------------------------------

func isoScenarios(tier string) []*mc.Scenario {
	var out []*mc.Scenario
	// one resource held by two connections under different client-facing ids:
	// its owner names it with the {cid} placeholder, the other connection by
	// the owner's literal id; each must get its frames under its own name
	out = append(out, &mc.Scenario{
		Name: "iso/foreign-cid", Props: []string{"C10"}, Monitors: allMons(),
		Init: func(w *mc.World) {
			basicInit(w)
			w.Svc.Model("test."+w.Conns[0].CID+".own", "n", `0`)
		},
		Conns: []mc.ConnSpec{
			conn(latest, req("subscribe.test.{cid}.own", 1), req("unsubscribe.test.{cid}.own", 3)),
			conn(latest, req("subscribe.test.{c1}.own", 1), reqp("call.test.{c1}.own.set", `{}`, 3)),
		},
		Threads: []mc.Thread{{Name: "svc", Ops: []mc.Op{
			op("own.custom", 2, func(w *mc.World) { w.Svc.Custom("test." + w.Conns[0].CID + ".own") }),
			op("own.n=1", 2, func(w *mc.World) { w.Svc.Change("test."+w.Conns[0].CID+".own", "n", `1`) }),
			op("own.custom2", 4, func(w *mc.World) { w.Svc.Custom("test." + w.Conns[0].CID + ".own") }),
		}}},
		Menu: menuStd(true, false),
	})
	out = append(out, &mc.Scenario{
		Name: "iso/cid-rids", Props: []string{"C10"}, Monitors: allMons(),
		Init: func(w *mc.World) {
			basicInit(w)
			for _, c := range w.Conns {
				w.Svc.Model("test."+c.CID+".own", "n", `0`, "peer", soft("test.{cid}.own"))
				w.Svc.Model("test.qq?id="+c.CID, "n", `0`)
			}
			w.Svc.Model("test.share", "own", ref("test.{cid}.own"))
		},
		Conns: []mc.ConnSpec{
			conn(latest, req("subscribe.test.{cid}.own", 1), req("subscribe.test.qq?id={cid}", 1), reqp("call.test.{cid}.own.set", `{}`, 2), req("unsubscribe.test.{cid}.own", 3)),
			conn("1.2.0", req("subscribe.test.{cid}.own", 1), req("get.test.qq?id={cid}", 2), reqp("auth.test.{cid}.own.login", `{}`, 2)),
		},
		Threads: []mc.Thread{{Name: "svc", Ops: []mc.Op{
			tokenOp(0, `{"u":"one"}`, "t1", 0), tokenOp(1, `{"u":"two"}`, "t2", 0),
			op("c1.own.n=1", 2, func(w *mc.World) { w.Svc.Change("test."+w.Conns[0].CID+".own", "n", `1`) }),
			tokenOp(0, `{"u":"uno"}`, "t1", 2),
			op("tokenReset t2", 3, func(w *mc.World) { w.Svc.TokenReset("auth.test.renew", "t2", "zz") }),
			op("c2.own.n=1", 3, func(w *mc.World) { w.Svc.Change("test."+w.Conns[1].CID+".own", "n", `1`) }),
		}}},
	})
	out = append(out, &mc.Scenario{
		Name: "iso/shared-tokens", Props: []string{"C10"}, Init: basicInit, Monitors: allMons(),
		Conns: []mc.ConnSpec{
			conn(latest, req("subscribe.test.m", 1), reqp("call.test.m.set", `{}`, 2)),
			conn(latest, req("subscribe.test.m", 1), reqp("call.test.m.set", `{}`, 2), req("unsubscribe.test.m", 3)),
			conn(latest, req("subscribe.test.x", 1)),
		},
		Threads: []mc.Thread{{Name: "svc", Ops: []mc.Op{
			tokenOp(0, `{"u":1}`, "a", 0), tokenOp(1, `{"u":2}`, "b", 0),
			tokenOp(1, `{"u":22}`, "b", 2),
			tokenOp(0, `{"u":11}`, "", 2),
			op("x.n=1", 2, func(w *mc.World) { w.Svc.Change("test.x", "n", `1`) }),
			op("tokenReset a", 3, func(w *mc.World) { w.Svc.TokenReset("auth.test.renew", "a") }),
			// an empty string in the list is not the id of the connections without token id (c1 by now, c3)
			op("tokenReset empty", 3, func(w *mc.World) { w.Svc.TokenReset("auth.test.renew2", "", "zz") }),
			op("http", 3, func(w *mc.World) { w.HTTP(mc.HTTPReq{Method: "GET", URL: "/api/test/m"}) }),
		}}},
		Menu: func(w *mc.World, r *mc.Req) []mc.Outcome {
			if r.Subject == "access.test.m" {
				return []mc.Outcome{w.OK(r), mc.Raw("deny", `{"result":{"get":false}}`)}
			}
			return nil
		},
	})
	return out
}

// ---------------------------------------------------------------------------
// disc/*: disconnect at every step (C11). The base histories are taken from
// the other families; a disconnect of each connection is offered as a
// deviation at every choice point.
// ---------------------------------------------------------------------------

func discScenarios(tier string) []*mc.Scenario {
	var out []*mc.Scenario
	var base []*mc.Scenario
	base = append(base, convScenarios(tier)...)
	base = append(base, cacheScenarios(tier)...)
	base = append(base, accScenarios(tier)...)
	base = append(base, queryScenarios(tier)...)
	for _, s := range base {
		if len(s.Conns) == 0 {
			continue
		}
		c := *s
		c.Name = "disc/" + s.Name
		c.Props = []string{"C11"}
		c.Disconnects = true
		// a fault at every step of the base history = bound 1; thorough adds one more deviation
		c.Bound = map[string]int{"quick": 1, "thorough": 2}
		out = append(out, &c)
		// the same with slow connection workers: answers and cache workers
		// overtake the queued disposal
		if strings.HasPrefix(s.Name, "conv/model-refs/1.2.3") || strings.HasPrefix(s.Name, "cache/lifecycle") || strings.HasPrefix(s.Name, "conv/shared") || strings.HasPrefix(s.Name, "query/alias/ab-n") || strings.HasPrefix(s.Name, "acc/read-outcomes") {
			l := c
			l.Name = "disc-lazy/" + s.Name
			l.LazyConns = true
			out = append(out, &l)
		}
	}
	return out
}
