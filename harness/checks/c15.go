package checks

import (
	"encoding/json"
	"fmt"
	"sort"
	"strings"
	"time"

	"verif/harness/mc"
	"verif/harness/run"
)

// jnode is an ordered JSON tree used to enumerate single-node corruptions.
type jnode struct {
	keys []string
	kids []*jnode // object members or array items
	arr  bool
	raw  string // leaf
}

func parseJ(s string) *jnode {
	dec := json.NewDecoder(strings.NewReader(s))
	dec.UseNumber()
	n, err := parseJTok(dec)
	if err != nil {
		panic(fmt.Sprintf("template %s: %v", s, err))
	}
	return n
}

func parseJTok(dec *json.Decoder) (*jnode, error) {
	t, err := dec.Token()
	if err != nil {
		return nil, err
	}
	switch v := t.(type) {
	case json.Delim:
		if v == '{' {
			n := &jnode{}
			for dec.More() {
				k, _ := dec.Token()
				c, err := parseJTok(dec)
				if err != nil {
					return nil, err
				}
				n.keys = append(n.keys, k.(string))
				n.kids = append(n.kids, c)
			}
			dec.Token()
			return n, nil
		}
		n := &jnode{arr: true}
		for dec.More() {
			c, err := parseJTok(dec)
			if err != nil {
				return nil, err
			}
			n.kids = append(n.kids, c)
		}
		dec.Token()
		return n, nil
	default:
		b, _ := json.Marshal(v)
		return &jnode{raw: string(b)}, nil
	}
}

// render encodes the tree; node sub (if non-nil) is replaced by repl ("" = removed),
// dup duplicates the member sub with value repl.
func (n *jnode) render(sub *jnode, repl string, dup bool) string {
	if n == sub && !dup {
		return repl
	}
	if n.raw != "" {
		return n.raw
	}
	var parts []string
	for i, c := range n.kids {
		if c == sub && repl == "" && !dup {
			continue // deleted
		}
		v := c.render(sub, repl, dup)
		if n.arr {
			parts = append(parts, v)
		} else {
			k, _ := json.Marshal(n.keys[i])
			parts = append(parts, string(k)+":"+v)
			if c == sub && dup {
				parts = append(parts, string(k)+":"+repl)
			}
		}
	}
	if n.arr {
		return "[" + strings.Join(parts, ",") + "]"
	}
	return "{" + strings.Join(parts, ",") + "}"
}

func (n *jnode) all() []*jnode {
	out := []*jnode{n}
	for _, c := range n.kids {
		out = append(out, c.all()...)
	}
	return out
}

var catalogue = []string{
	`null`, `true`, `-1`, `0`, `1`, `9223372036854775808`, `1e999`, `1.5`, `""`, `"x"`, `[]`, `[null]`, `[[]]`, `{}`,
	`{"rid":""}`, `{"rid":"test.x","action":"delete"}`, `{"rid":"test.x","data":1}`, `{"rid":"a..b"}`, `{"action":"x"}`, `{"action":"delete"}`,
	`{"data":null}`, `{"data":{"rid":"test.x"}}`, `{"soft":true}`, `{"rid":"test.x","soft":"yes"}`, `100000`, `"test.x"`,
	// indices at and around the length of the collections of the history (3, and 4 after an add)
	`2`, `3`, `4`, `5`,
	`{"rid":"test.x","soft":true,"data":{"a":1}}`, `{"action":"delete","data":1}`,
}

var catalogueQuick = []string{
	`null`, `true`, `-1`, `1`, `9223372036854775808`, `""`, `[]`, `[null]`, `{}`, `{"rid":""}`, `{"rid":"test.x","action":"delete"}`, `{"action":"x"}`, `{"data":null}`, `100000`,
	`2`, `3`, `4`,
	// value objects that mix the members of different kinds of value
	`{"rid":"test.x","data":1}`, `{"rid":"test.x","soft":true,"data":{"a":1}}`, `{"action":"delete","data":1}`,
}

// corruptions returns the valid template followed by all single-node corruptions.
func corruptions(tmpl string, cat []string) []string {
	root := parseJ(tmpl)
	seen := map[string]bool{tmpl: true}
	out := []string{root.render(nil, "", false)}
	add := func(s string) {
		if !seen[s] {
			seen[s] = true
			out = append(out, s)
		}
	}
	for _, n := range root.all() {
		for _, c := range cat {
			add(root.render(n, c, false))
		}
		if n != root {
			add(root.render(n, "", false)) // deletion
			add(root.render(n, `"dup"`, true))
		}
	}
	return out
}

func byteStrings(max int) []string {
	var out []string
	allStrings([]string{"{", "}", "[", "]", `"`, ":", ",", "n", "1", " "}, max, func(s string) { out = append(out, s) })
	return out
}

// c15Mon: containment oracle. At the end every resource a client holds
// (through a confirmed subscription) must equal the gateway's cached copy:
// a message is applied as a whole or not at all, for clients and cache alike.
type c15Mon struct{}

func (c15Mon) Step(*mc.World, string) {}

func (c15Mon) End(w *mc.World) {
	if w.Data["untracked"] != nil {
		return
	}
	cache := map[string]string{}
	for _, e := range w.CacheSnaps() {
		for _, r := range e.Resources {
			if r.State >= 3 {
				k := e.Name
				if r.Query != "" {
					k += "?" + r.Query
				}
				cache[k] = mc.CanonJSON([]byte(r.Value))
			}
		}
	}
	for _, c := range w.Conns {
		if c.Disposed {
			continue
		}
		conf := c.Client.Confirmed()
		var rids []string
		for rid := range conf {
			rids = append(rids, rid)
		}
		sort.Strings(rids)
		for _, rid := range rids {
			cr := c.Client.Store[rid]
			if cr.Kind == "error" || cr.Deleted {
				continue
			}
			name, q := rid, ""
			if i := strings.IndexByte(rid, '?'); i >= 0 {
				name, q = rid[:i], w.Svc.Norm(rid[:i], rid[i+1:])
			}
			k := name
			if q != "" {
				k += "?" + q
			}
			want, ok := cache[k]
			if !ok {
				w.Fail("C15", "client-holds-uncached", "%s holds %s but the gateway has no loaded cache entry for it", c.Label, rid)
				continue
			}
			got := ""
			if cr.Kind == "model" {
				m := map[string]json.RawMessage{}
				for k, v := range cr.M {
					m[k] = v
				}
				b, _ := json.Marshal(m)
				got = mc.CanonJSON(b)
			} else {
				b, _ := json.Marshal(cr.C)
				if cr.C == nil {
					b = []byte("[]")
				}
				got = mc.CanonJSON(b)
			}
			if got != want {
				w.Fail("C15", "partial-application", "%s: client copy of %s is %s but the cached copy is %s", c.Label, rid, got, want)
			}
		}
	}
}

// refValueInvalid reports whether a RES value is clearly invalid by the
// protocol: an array, an object that is neither reference, action nor data
// value, an unknown action, an empty or malformed rid, or an ambiguous mix.
func refValueInvalid(raw json.RawMessage, allowDelete bool) bool {
	t := strings.TrimSpace(string(raw))
	if t == "" {
		return true
	}
	if t[0] == '[' {
		return true
	}
	if t[0] != '{' {
		return false
	}
	var o map[string]json.RawMessage
	if json.Unmarshal(raw, &o) != nil {
		return true
	}
	_, hasRID := o["rid"]
	_, hasAct := o["action"]
	_, hasData := o["data"]
	n := 0
	for _, b := range []bool{hasRID, hasAct, hasData} {
		if b {
			n++
		}
	}
	if n != 1 {
		return true
	}
	if hasRID {
		var rid string
		if json.Unmarshal(o["rid"], &rid) != nil {
			return true
		}
		if _, _, ok := refRID(rid); !ok {
			return true
		}
		if sv, ok := o["soft"]; ok {
			var b bool
			if json.Unmarshal(sv, &b) != nil {
				return true
			}
		}
	}
	if hasAct {
		var a string
		if json.Unmarshal(o["action"], &a) != nil || a != "delete" || !allowDelete {
			return true
		}
	}
	return false
}

// refEventInvalid reports whether an injected change/add/remove event is
// clearly invalid and therefore has to be discarded as a whole. judged is
// false for payload shapes the reference does not judge (e.g. legacy forms).
func refEventInvalid(kind, payload string, collLen int) (invalid, judged bool) {
	var o map[string]json.RawMessage
	if json.Unmarshal([]byte(payload), &o) != nil {
		return false, false
	}
	switch kind {
	case "ev-change":
		if len(o) != 1 {
			return false, false
		}
		var vals map[string]json.RawMessage
		if v, ok := o["values"]; !ok || json.Unmarshal(v, &vals) != nil || vals == nil {
			return false, false
		}
		for _, v := range vals {
			if refValueInvalid(v, true) {
				return true, true
			}
		}
		return false, true
	case "ev-add":
		var idx *int
		if v, ok := o["idx"]; ok {
			if json.Unmarshal(v, &idx) != nil {
				return true, true
			}
		}
		if idx == nil || *idx < 0 || *idx > collLen {
			return true, true
		}
		v, ok := o["value"]
		if !ok || refValueInvalid(v, false) {
			return true, true
		}
		return false, true
	case "ev-remove":
		var idx *int
		if v, ok := o["idx"]; ok {
			if json.Unmarshal(v, &idx) != nil {
				return true, true
			}
		}
		if idx == nil || *idx < 0 || *idx >= collLen {
			return true, true
		}
		return false, true
	}
	return false, false
}

// c15Window checks that a clearly invalid event leaves the cached resource
// unchanged and reaches no client: the cache and the client's frames are
// compared between the injection and the first probe event.
type c15Window struct {
	kind, payload string
	pre           map[string]string
	preFrames     int
	done          bool
}

func (m *c15Window) cacheValues(w *mc.World) map[string]string {
	out := map[string]string{}
	for _, e := range w.CacheSnaps() {
		for _, r := range e.Resources {
			if r.Query == "" && r.State >= 3 {
				out[e.Name] = mc.CanonJSON([]byte(r.Value))
			}
		}
	}
	return out
}

func (m *c15Window) Step(w *mc.World, action string) {
	if m.done {
		return
	}
	if strings.HasSuffix(action, ":inject") {
		m.pre = m.cacheValues(w)
		m.preFrames = len(w.Conns[0].Frames)
		return
	}
	if m.pre != nil && strings.HasSuffix(action, ":m.probe") {
		m.done = true
		if m.kind == "ev-change-2" {
			m.kind = "ev-change"
		}
		if m.kind == "resp-query" {
			// an answer to a query request gives the new state in one form: events, or
			// the full model, or the full collection; one with several of them is
			// invalid and has to be discarded as a whole
			var o struct {
				Result map[string]json.RawMessage `json:"result"`
			}
			if json.Unmarshal([]byte(m.payload), &o) != nil || o.Result == nil {
				return
			}
			forms := 0
			for _, k := range []string{"events", "model", "collection"} {
				if v, ok := o.Result[k]; ok && string(v) != "null" {
					forms++
				}
			}
			if forms < 2 {
				return
			}
			for _, f := range w.Conns[0].Frames[m.preFrames:] {
				if strings.Contains(string(f), `"event":"test.q?a.`) {
					w.Fail("C15", "invalid-message-forwarded", "the query answer gives the state in %d forms at once but the client was sent %s", forms, f)
				}
			}
			return
		}
		target := map[string]string{"ev-change": "test.m", "ev-add": "test.c", "ev-remove": "test.c"}[m.kind]
		if target == "" {
			return
		}
		invalid, judged := refEventInvalid(m.kind, m.payload, 3)
		if !judged || !invalid {
			return
		}
		post := m.cacheValues(w)
		if m.pre[target] != "" && post[target] != m.pre[target] {
			w.Fail("C15", "invalid-message-applied", "the injected %s event is invalid but the cached %s changed from %s to %s", m.kind[3:], target, m.pre[target], post[target])
		}
		for _, f := range w.Conns[0].Frames[m.preFrames:] {
			if strings.Contains(string(f), `"event":"`+target+`.`) {
				w.Fail("C15", "invalid-message-forwarded", "the injected %s event is invalid but the client was sent %s", m.kind[3:], f)
			}
		}
	}
}

func (m *c15Window) End(*mc.World) {}

type c15Case struct {
	kind    string
	payload string
}

// c15Scenario builds the history around one injected message.
func c15Scenario(kind, payload string, pos int) *mc.Scenario {
	inject := func(w *mc.World) {
		switch kind {
		case "ev-change", "ev-change-2":
			w.MQ.Publish("event.test.m.change", []byte(payload))
		case "ev-change-on-collection":
			w.MQ.Publish("event.test.c.change", []byte(payload))
		case "ev-add":
			w.MQ.Publish("event.test.c.add", []byte(payload))
		case "ev-add-on-model":
			w.MQ.Publish("event.test.m.add", []byte(payload))
		case "ev-remove":
			w.MQ.Publish("event.test.c.remove", []byte(payload))
		case "ev-custom":
			w.MQ.Publish("event.test.m.custom", []byte(payload))
		case "ev-delete":
			w.MQ.Publish("event.test.y.delete", []byte(payload))
		case "ev-reaccess":
			w.MQ.Publish("event.test.m.reaccess", []byte(payload))
		case "ev-query":
			w.MQ.Publish("event.test.q.query", []byte(payload))
		case "ev-unknown":
			w.MQ.Publish("event.test.m.", []byte(payload))
		case "sys-reset":
			w.MQ.Publish("system.reset", []byte(payload))
		case "sys-tokenreset":
			w.MQ.Publish("system.tokenReset", []byte(payload))
		case "sys-other":
			w.MQ.Publish("system.", []byte(payload))
		case "conn-token":
			w.MQ.Publish("conn."+w.Conns[0].CID+".token", []byte(payload))
		case "conn-other":
			w.MQ.Publish("conn."+w.Conns[0].CID+".", []byte(payload))
		case "client-frame":
			// let the reference client know about the request if it is one
			var f struct {
				ID     *uint64         `json:"id"`
				Method *string         `json:"method"`
				Params json.RawMessage `json:"params"`
			}
			c := w.Conns[0]
			if json.Unmarshal([]byte(payload), &f) == nil && f.ID != nil && f.Method != nil && *f.ID < 1000 {
				if _, busy := c.Client.Pending[int(*f.ID)]; !busy && c.Client.Done[int(*f.ID)] == nil {
					c.Client.Sent(int(*f.ID), *f.Method, string(f.Params), w.Time())
				} else {
					w.Data["untracked"] = true // id collides: the reference client cannot follow this request
				}
			} else if f.ID != nil && f.Method != nil {
				w.Data["untracked"] = true
			}
			c.VC.Inject([]byte(payload))
		case "http-body":
			w.HTTP(mc.HTTPReq{Method: "POST", URL: "/api/test/m/act", Body: payload})
		case "resp-query":
			w.Svc.Silent("test.q?n", func(r *mc.SvcRes) { r.M["v"] = `9` })
			w.Svc.QueryEvent("test.q", "_QE_1")
		case "resp-reset-get":
			w.Svc.Reset([]string{"test.m", "test.c"}, nil)
		case "resp-access-re":
			w.Svc.Reaccess("test.m")
		}
	}
	respKinds := map[string]string{"resp-get": "get.test.late", "resp-access": "access.test.late", "resp-call": "call.test.m.act", "resp-auth": "auth.test.m.login",
		"resp-query": "_QE_1", "resp-reset-get": "get.test.m", "resp-access-re": "access.test.m", "resp-new": "call.test.c.new", "resp-get-child": "get.test.child"}
	used := false
	script := []mc.ClientReq{
		req("subscribe.test.m", 0), req("subscribe.test.c", 0), req("subscribe.test.q?a", 0), req("subscribe.test.y", 0),
	}
	probe := []mc.ClientReq{req("subscribe.test.z", 4), reqp("call.test.z.ok", `{}`, 4), req("get.test.m", 4)}
	switch kind {
	case "resp-get", "resp-access":
		script = append(script, req("subscribe.test.late", 2))
	case "resp-call":
		script = append(script, reqp("call.test.m.act", `{}`, 2))
	case "resp-new":
		script = append(script, reqp("new.test.c", `{}`, 2))
	case "resp-auth":
		script = append(script, reqp("auth.test.m.login", `{}`, 2))
	case "resp-get-child":
		script = append(script, req("subscribe.test.parent", 2))
	}
	script = append(script, probe...)
	phase := map[int]int{0: 1, 1: 2}[pos]
	sc := &mc.Scenario{
		Name: "c15/" + kind, NoEvict: true,
		Init: func(w *mc.World) {
			s := w.Svc
			s.Model("test.m", "a", `1`, "r", ref("test.x"))
			s.Collection("test.c", `1`, ref("test.x"), `"s"`)
			s.Model("test.x", "n", `0`)
			s.Model("test.y", "n", `0`)
			s.Model("test.z", "n", `0`)
			s.Model("test.late", "n", `0`)
			s.Model("test.child", "n", `0`)
			s.Model("test.parent", "c", ref("test.child"))
			s.Norm = func(_, q string) string {
				if q == "a" {
					return "n"
				}
				return q
			}
			s.Model("test.q?n", "v", `0`)
			s.Call = func(_, m, _ string) string { return `{"result":{"ok":true}}` }
		},
		Conns: []mc.ConnSpec{conn(latest, script...)},
		Threads: []mc.Thread{{Name: "inj", Ops: []mc.Op{
			op("inject", phase, inject),
			// valid follow-ups on the targeted resources
			op("m.probe", 3, func(w *mc.World) { w.MQ.Publish("event.test.m.change", []byte(`{"values":{"probe":1}}`)) }),
			op("c.probe", 3, func(w *mc.World) { w.MQ.Publish("event.test.c.add", []byte(`{"idx":0,"value":"probe"}`)) }),
			op("x.probe", 3, func(w *mc.World) { w.MQ.Publish("event.test.x.change", []byte(`{"values":{"probe":1}}`)) }),
		}}},
		Menu: func(w *mc.World, r *mc.Req) []mc.Outcome {
			if subj, ok := respKinds[kind]; ok && r.Subject == subj && !used {
				if kind == "resp-reset-get" || kind == "resp-access-re" {
					// the first request on this subject is the initial one
					first := true
					for _, o := range w.MQ.Requests() {
						if o.Subject == subj && o != r && o.Seq < r.Seq {
							first = false
						}
					}
					if first {
						return nil
					}
				}
				used = true
				return []mc.Outcome{mc.Raw("injected", payload)}
			}
			return nil
		},
		Monitors: func(w *mc.World) []mc.Monitor {
			return []mc.Monitor{&mc.ClientMon{}, c15Mon{}, &mc.SubjectMon{}, &c15Probe{}, &c15Window{kind: kind, payload: payload}}
		},
	}
	return sc
}

// c15Probe checks that handling goes on after the injected message: the
// probe requests are answered and the probe events reach the client for
// every resource it still holds.
type c15Probe struct{}

func (*c15Probe) Step(*mc.World, string) {}

func (*c15Probe) End(w *mc.World) {
	c := w.Conns[0]
	for _, r := range c.Client.Resp {
		if r.Req != nil && r.Req.Method == "subscribe.test.z" && r.IsErr {
			w.Fail("C15", "other-resource-affected", "subscribe.test.z failed with %s after the injected message", r.Code)
		}
	}
	if w.Data["untracked"] != nil {
		return
	}
	conf := c.Client.Confirmed()
	for _, rid := range []string{"test.m", "test.c", "test.x"} {
		cr := c.Client.Store[rid]
		if cr == nil || !conf[rid] || cr.Deleted || cr.Kind == "error" {
			continue
		}
		seen := false
		for _, ev := range c.Client.EventLog {
			if ev.RID == rid && strings.Contains(string(ev.Data), "probe") {
				seen = true
			}
		}
		if !seen {
			w.Fail("C15", "later-message-lost", "%s still holds %s but the valid event sent after the injected message was not delivered", c.Label, rid)
		}
	}
}

func enumC15(tier string, part, parts, skip int, deadline time.Time, note func(int, string)) *run.EnumResult {
	res := &run.EnumResult{Exhaustive: true, Rule: "malformed input: for every message kind (client frame, HTTP body, get/access/call/new/auth/query/reset-get/re-access responses, change/add/remove/custom/delete/reaccess/query events incl. events of the wrong kind, system.reset, system.tokenReset, conn token) a valid template and every single-node substitution by each value of a catalogue, node deletion and key duplication, plus every byte string up to 3 symbols over {{}[]\":,n1 space} as the whole payload; each injected at 2 positions of a history with a model, a collection, a shared child and a query resource. Oracle: process survives, nothing hangs, one response per request, every frame applicable, client copy == cached copy at the end, probe requests on other resources succeed, valid events sent afterwards are delivered. distinct_nontrivial counts corrupted (non-template) payloads"}
	cat := catalogueQuick
	bs := 2
	if tier == "thorough" {
		cat = catalogue
		bs = 3
	}
	templates := map[string][]string{
		"ev-change":               {`{"values":{"a":2,"r":{"rid":"test.y"},"d":{"data":{"k":1}},"s":{"rid":"test.z","soft":true},"x":{"action":"delete"}}}`},
		"ev-change-on-collection": {`{"values":{"a":2}}`},
		"ev-change-2":             {`{"values":{"a":3,"b":"x"}}`, `{"values":{"a":{"rid":"test.y"},"zz":4}}`},
		"ev-add":                  {`{"idx":1,"value":{"rid":"test.y"}}`, `{"idx":3,"value":7}`},
		"ev-add-on-model":         {`{"idx":0,"value":7}`},
		"ev-remove":               {`{"idx":1}`},
		"ev-custom":               {`{"foo":["bar"]}`},
		"ev-delete":               {`null`},
		"ev-reaccess":             {`null`},
		"ev-query":                {`{"subject":"_QE_1"}`},
		"ev-unknown":              {`{"a":1}`},
		"sys-reset":               {`{"resources":["test.>"],"access":["test.m"]}`},
		"sys-tokenreset":          {`{"tids":["t1"],"subject":"auth.renew"}`},
		"sys-other":               {`{}`},
		"conn-token":              {`{"token":{"u":1},"tid":"t1"}`},
		"conn-other":              {`{}`},
		"client-frame":            {`{"id":9,"method":"subscribe.test.late","params":{"count":1}}`, `{"id":9,"method":"unsubscribe.test.m","params":{"count":1}}`, `{"id":9,"method":"version","params":{"protocol":"1.2.3"}}`},
		"http-body":               {`{"a":[1,{"b":2}]}`},
		"resp-get":                {`{"result":{"model":{"a":1,"r":{"rid":"test.x"}}}}`, `{"result":{"collection":[1,{"rid":"test.x"}],"query":"q"}}`, `{"error":{"code":"system.notFound","message":"nf","data":{"x":1}}}`},
		"resp-get-child":          {`{"result":{"model":{"a":1}}}`},
		"resp-access":             {`{"result":{"get":true,"call":"a,b"},"meta":{"status":200,"header":{"X":["1"]}}}`},
		"resp-access-re":          {`{"result":{"get":true,"call":"*"}}`},
		"resp-call":               {`{"result":{"x":1}}`, `{"resource":{"rid":"test.y"}}`},
		"resp-new":                {`{"resource":{"rid":"test.y"}}`, `{"result":{"rid":"test.y"}}`},
		"resp-auth":               {`{"result":null,"meta":{"status":302,"header":{"Location":["/x"]}}}`},
		"resp-query":              {`{"result":{"events":[{"event":"change","data":{"values":{"v":9}}}]}}`, `{"result":{"model":{"v":9}}}`, `{"result":{"collection":[1]}}`, `{"result":{"model":{"v":9},"collection":[1]}}`, `{"result":{"events":[],"model":{"v":9}}}`},
		"resp-reset-get":          {`{"result":{"model":{"a":5,"r":{"rid":"test.y"}}}}`, `{"result":{"collection":[2]}}`},
	}
	var kinds []string
	for k := range templates {
		kinds = append(kinds, k)
	}
	sort.Strings(kinds)
	bstr := byteStrings(bs)
	idx := -1
	for _, kind := range kinds {
		var payloads []string
		for _, t := range templates[kind] {
			payloads = append(payloads, corruptions(t, cat)...)
		}
		payloads = append(payloads, bstr...)
		payloads = append(payloads, "", "\x00", "\xff\xfe", strings.Repeat("[", 3000), `{"values":`+strings.Repeat(`{"a":`, 200)+`1`+strings.Repeat(`}`, 200)+`}`)
		for pi, p := range payloads {
			for pos := 0; pos < 2; pos++ {
				if pos == 1 && (strings.HasPrefix(kind, "resp-") || kind == "http-body" || kind == "client-frame") {
					continue
				}
				idx++
				if idx%parts != part || idx < skip {
					continue
				}
				if time.Now().After(deadline) {
					res.Exhaustive = false
					return res
				}
				desc := fmt.Sprintf("%s pos=%d payload=%q", kind, pos, trunc(p, 200))
				note(idx, desc)
				x := mc.RunOnce(c15Scenario(kind, p, pos), nil, mc.RunOpts{})
				res.Evaluations++
				if pi >= len(templates[kind]) {
					res.Distinct++
				}
				if x.Hung || x.Truncated {
					x.Viol = append(x.Viol, mc.Violation{Prop: "C15", Kind: "hang", Msg: "gateway did not quiesce"})
				}
				for _, v := range x.Viol {
					if kind == "client-frame" && v.Prop == "C07" && !strings.HasPrefix(v.Kind, "unanswered") {
						continue // corrupted ids may collide with, or be unknown to, the reference client
					}
					if v.Prop == "C15" || v.Prop == "C02" || v.Prop == "C07" || v.Prop == "*" || v.Prop == "C14" {
						k := v.Kind
						if v.Prop != "C15" {
							k = v.Prop + ":" + k
						}
						dup := false
						for _, f := range res.Found {
							if f.Kind == k+"/"+kind {
								dup = true
							}
						}
						if !dup {
							res.Found = append(res.Found, run.EnumFound{Kind: k + "/" + kind, Msg: v.Msg + " [" + desc + "]", Input: desc})
						}
					}
				}
				if len(res.Samples) < 3 && pi > 3 {
					res.Samples = append(res.Samples, desc)
				}
			}
		}
	}
	return res
}

func trunc(s string, n int) string {
	if len(s) > n {
		return s[:n] + fmt.Sprintf("...(%d bytes)", len(s))
	}
	return s
}

func init() {
	register(&run.Check{
		Prop:        "C15",
		Level:       "exploration",
		EnumPar:     enumC15,
		EnumParts:   map[string]int{"quick": 64, "thorough": 128},
		Budget:      map[string]time.Duration{"quick": 150 * time.Second, "thorough": 30 * time.Minute},
		Assumptions: []string{"a corrupted message that happens to be valid may be applied; the oracle requires all-or-nothing application (client copy == cached copy), not rejection", "single-node corruptions and short byte strings only; default (sequential) schedule"},
	})
}
