package checks

import (
	"time"
	"fmt"
	"strings"

	"github.com/resgateio/resgate/server"
	"verif/harness/mc"
)

// allMons attaches every universal monitor.
func allMons(extra ...func() mc.Monitor) func(w *mc.World) []mc.Monitor {
	return func(w *mc.World) []mc.Monitor {
		m := []mc.Monitor{&mc.ClientMon{}, &mc.ConvMon{}, &mc.CacheMon{}, &mc.SubjectMon{}, &mc.CountMon{}, &mc.IsoMon{}, &mc.AccessMon{}, &mc.DiscMon{}}
		for _, f := range extra {
			m = append(m, f())
		}
		return m
	}
}

func queryMon() mc.Monitor    { return &mc.QueryMon{} }
func seqMon() mc.Monitor      { return &mc.SeqMon{} }
func seqMonRelax() mc.Monitor { return &mc.SeqMon{Relaxed: true} }

func basicInit(w *mc.World) {
	s := w.Svc
	s.Model("test.m", "a", `1`, "r", ref("test.x"))
	s.Model("test.x", "n", `0`)
	s.Model("test.y", "n", `0`)
	s.Collection("test.c", `"a"`, ref("test.x"))
	s.Model("test.p", "x", ref("test.x"), "y", ref("test.y"))
	s.Error("test.err", "system.notFound")
	s.Error("test.err2", "custom.broken")
}

// menuStd offers failure outcomes for access and get requests.
func menuStd(accessFail, getFail bool) func(w *mc.World, r *mc.Req) []mc.Outcome {
	return func(w *mc.World, r *mc.Req) []mc.Outcome {
		out := []mc.Outcome{w.OK(r)}
		switch {
		case subjectIs(r, "access.") && accessFail:
			out = append(out, mc.Raw("deny", `{"result":{"get":false}}`), mc.ResErr("system.accessDenied"), mc.Timeout())
		case subjectIs(r, "get.") && getFail:
			out = append(out, mc.ResErr("system.notFound"), mc.Timeout())
		}
		return out
	}
}

// ---------------------------------------------------------------------------
// resp/*: exactly one response per request (C07)
// ---------------------------------------------------------------------------

func respScenarios(tier string) []*mc.Scenario {
	var out []*mc.Scenario
	props := []string{"C07"}
	out = append(out, &mc.Scenario{
		Name: "resp/overlap-same-rid", Props: props, Init: basicInit, Monitors: allMons(),
		Conns: []mc.ConnSpec{conn(latest,
			req("subscribe.test.m", 0), req("get.test.m", 0), req("unsubscribe.test.m", 0),
			reqp("call.test.m.set", `{"a":2}`, 0), req("subscribe.test.m", 0), req("unsubscribe.test.m", 1))},
		Menu: menuStd(true, true),
	})
	// several requests outstanding on one resource while an unsubscribe takes
	// away only part of the direct count: the subscription object survives,
	// and every outstanding request must still be answered whatever the load
	// ends in
	out = append(out, &mc.Scenario{
		Name: "resp/partial-unsubscribe", Props: props, Init: basicInit, Monitors: allMons(),
		Conns: []mc.ConnSpec{conn(latest,
			req("subscribe.test.m", 0), req("subscribe.test.m", 0), req("unsubscribe.test.m", 0),
			req("get.test.m", 0), req("subscribe.test.m", 0))},
		Menu: menuStd(true, true),
		// the service is slow: by default all requests are outstanding together
		Slow: func(r *mc.Req) bool { return true },
	})
	out = append(out, &mc.Scenario{
		Name: "resp/child-and-parent", Props: props, Init: basicInit, Monitors: allMons(),
		Conns: []mc.ConnSpec{conn(latest,
			req("subscribe.test.x", 0), req("subscribe.test.m", 0), req("unsubscribe.test.x", 0),
			req("get.test.c", 0), req("unsubscribe.test.m", 1))},
		Menu: menuStd(false, true),
	})
	out = append(out, &mc.Scenario{
		Name: "resp/malformed-methods", Props: append(props, "C14"), Init: basicInit, Monitors: allMons(),
		Conns: []mc.ConnSpec{conn(latest,
			req("subscribe", 0), req("foo.test.m", 0), req("call.test", 0), req("subscribe.test..m", 0),
			req("subscribe.test.m.", 0), req("get.test.*", 0), req("subscribe.test.m?q=1", 0),
			reqp("unsubscribe.test.m", `{"count":"x"}`, 0), reqp("unsubscribe.test.m", `{"count":0}`, 0),
			reqp("version", `{"protocol":"2.0.0"}`, 0), reqp("version", `{"protocol":"1.x"}`, 0),
			req("auth.test.m.login", 0), req("new.test.c", 0), req("call.test.m. ", 0), req("unsubscribe.test.zzz", 0),
			// ids that a float64 cannot hold: the response must carry the very same id
			mc.ClientReq{Method: "get.test.x", ID: 9007199254740993}, mc.ClientReq{Method: "subscribe.test.y", ID: 9223372036854775807},
			mc.ClientReq{Method: "call.test.y.set", Params: `{}`, ID: 4611686018427387905})},
		Menu: func(w *mc.World, r *mc.Req) []mc.Outcome {
			if subjectIs(r, "auth.") || subjectIs(r, "call.") {
				return []mc.Outcome{w.OK(r), mc.ResErr("system.methodNotFound"), mc.Timeout(), mc.Raw("resource", `{"resource":{"rid":"test.x"}}`)}
			}
			return nil
		},
	})
	out = append(out, &mc.Scenario{
		Name: "resp/delete-and-revoke", Props: props, Init: basicInit, Monitors: allMons(),
		Conns: []mc.ConnSpec{conn(latest,
			req("subscribe.test.x", 0), req("subscribe.test.m", 0), req("get.test.x", 1), req("unsubscribe.test.x", 2), req("subscribe.test.x", 2))},
		Threads: []mc.Thread{{Name: "svc", Ops: []mc.Op{
			op("x.delete", 1, func(w *mc.World) { w.Svc.Delete("test.x") }),
			op("m.reaccess", 1, func(w *mc.World) { w.Svc.Reaccess("test.m") }),
		}}},
		Menu: menuStd(true, false),
	})
	// the same histories with the subscriber fan-out of a cached resource in
	// reverse registration order: several Subscription objects of one
	// connection can sit on one resource here (a disposed one that is still
	// loading next to its successor), and the order of their announcements
	// decides what the connection does first
	for _, name := range []string{"resp/overlap-same-rid", "resp/partial-unsubscribe"} {
		for _, sc := range out {
			if sc.Name == name {
				c := *sc
				c.Name += "/rev"
				c.RevSubs = true
				out = append(out, &c)
				break
			}
		}
	}
	return out
}

// ---------------------------------------------------------------------------
// count/*: direct subscription accounting (C08)
// ---------------------------------------------------------------------------

func syncReq(method, params string, phase int) mc.ClientReq {
	return mc.ClientReq{Method: method, Params: params, Phase: phase, Sync: true}
}

func countScenarios(tier string) []*mc.Scenario {
	var out []*mc.Scenario
	props := []string{"C08"}
	out = append(out, &mc.Scenario{
		Name: "count/basic", Props: props, Init: basicInit, Monitors: allMons(),
		Conns: []mc.ConnSpec{conn(latest,
			syncReq("subscribe.test.m", "", 0), syncReq("subscribe.test.m", "", 0),
			syncReq("unsubscribe.test.m", `{"count":3}`, 0), syncReq("unsubscribe.test.m", `{"count":2}`, 0),
			syncReq("unsubscribe.test.m", "", 0), syncReq("get.test.m", "", 0), syncReq("unsubscribe.test.m", "", 0),
			syncReq("subscribe.test.m", "", 0), syncReq("unsubscribe.test.m", `{"count":0}`, 0),
			syncReq("unsubscribe.test.m", `{"count":-1}`, 0), syncReq("unsubscribe.test.m", `{"count":"x"}`, 0),
			syncReq("unsubscribe.test.m", `{"count":null}`, 0),
			// counts that do not fit a signed integer must be refused, not wrapped
			syncReq("unsubscribe.test.m", `{"count":18446744073709551615}`, 0), syncReq("unsubscribe.test.m", `{"count":9223372036854775808}`, 0),
			syncReq("unsubscribe.test.m", `{"count":1.5}`, 0), syncReq("unsubscribe.test.m", `{"count":1e0}`, 0),
			syncReq("unsubscribe.test.m", "", 0))},
		Menu: menuStd(true, true),
	})
	out = append(out, &mc.Scenario{
		Name: "count/failed-requests", Props: props, Init: basicInit, Monitors: allMons(),
		Conns: []mc.ConnSpec{conn(latest,
			syncReq("get.test.err", "", 0), syncReq("subscribe.test.err", "", 0), syncReq("unsubscribe.test.err", "", 0),
			syncReq("subscribe.test.err2", "", 0), syncReq("get.test.err2", "", 0), syncReq("subscribe.test.err2", "", 0),
			syncReq("get.test.x", "", 1), syncReq("subscribe.test.x", "", 1), syncReq("unsubscribe.test.x", "", 1), syncReq("unsubscribe.test.x", "", 1))},
		Menu: menuStd(true, true),
	})
	out = append(out, &mc.Scenario{
		Name: "count/resource-response", Props: props, Init: func(w *mc.World) {
			basicInit(w)
			w.Svc.Call = func(name, method, payload string) string {
				if method == "ref" || method == "new" {
					return `{"resource":{"rid":"test.x"}}`
				}
				return `{"result":{"ok":true}}`
			}
		}, Monitors: allMons(),
		Conns: []mc.ConnSpec{conn(latest,
			syncReq("call.test.m.ref", "", 0), syncReq("new.test.c", "", 0), syncReq("unsubscribe.test.x", `{"count":2}`, 0),
			syncReq("call.test.m.set", "", 0), syncReq("auth.test.m.ref", "", 0), syncReq("unsubscribe.test.x", "", 0), syncReq("unsubscribe.test.x", "", 0))},
		// get failures of a resource response are kept out: whether such a
		// response counts as a direct subscription is left open by the statement
		Menu: func(w *mc.World, r *mc.Req) []mc.Outcome {
			if subjectIs(r, "call.") && strings.HasSuffix(r.Subject, ".set") {
				return []mc.Outcome{w.OK(r), mc.Timeout(), mc.ResErr("system.invalidParams")}
			}
			return nil
		},
	})
	// a resource response whose resource fails to load carries an error in its
	// place; the gateway keeps the direct subscription it made for it, so the
	// client must be able to give it back (judged against the gateway's own count)
	out = append(out, &mc.Scenario{
		Name: "count/resource-response-error", Props: props, Init: func(w *mc.World) {
			basicInit(w)
			w.Svc.Call = func(name, method, payload string) string {
				switch method {
				case "ref":
					return `{"resource":{"rid":"test.err2"}}`
				case "gone":
					return `{"resource":{"rid":"test.err"}}`
				}
				return `{"result":{"ok":true}}`
			}
		}, Monitors: allMons(),
		Conns: []mc.ConnSpec{conn(latest,
			syncReq("call.test.m.ref", "", 0), syncReq("unsubscribe.test.err2", "", 0), syncReq("unsubscribe.test.err2", "", 0),
			syncReq("auth.test.m.gone", "", 0), syncReq("call.test.m.gone", "", 0), syncReq("unsubscribe.test.err", `{"count":3}`, 0), syncReq("unsubscribe.test.err", `{"count":2}`, 0),
			syncReq("subscribe.test.err", "", 0))},
	})
	// new requests of legacy clients subscribe the created resource too
	for _, ver := range []string{"", "1.1.1"} {
		name := "count/legacy-new/none"
		if ver != "" {
			name = "count/legacy-new/" + ver
		}
		out = append(out, &mc.Scenario{
			Name: name, Props: props, Init: func(w *mc.World) {
				basicInit(w)
				w.Svc.Call = func(name, method, payload string) string {
					if method == "new" {
						return `{"resource":{"rid":"test.y"}}`
					}
					return `{"result":{"ok":true}}`
				}
			}, Monitors: allMons(),
			Conns: []mc.ConnSpec{conn(ver,
				syncReq("new.test.c", `{"n":1}`, 0), syncReq("new.test.c", `{"n":2}`, 0), syncReq("call.test.y.set", "", 0),
				syncReq("unsubscribe.test.y", `{"count":2}`, 2), syncReq("unsubscribe.test.y", "", 2))},
			Threads: []mc.Thread{{Name: "svc", Ops: []mc.Op{
				op("y.n=5", 1, func(w *mc.World) { w.Svc.Change("test.y", "n", `5`) }),
			}}},
		})
	}
	out = append(out, &mc.Scenario{
		Name: "count/revoke", Props: props, Init: basicInit, Monitors: allMons(),
		Conns: []mc.ConnSpec{conn(latest,
			syncReq("subscribe.test.x", "", 0), syncReq("subscribe.test.x", "", 0), syncReq("subscribe.test.m", "", 0),
			syncReq("unsubscribe.test.x", "", 2), syncReq("unsubscribe.test.m", "", 2))},
		Threads: []mc.Thread{{Name: "svc", Ops: []mc.Op{
			op("x.reaccess", 1, func(w *mc.World) { w.Svc.Reaccess("test.x") }),
		}}},
		Menu: func(w *mc.World, r *mc.Req) []mc.Outcome {
			if subjectIs(r, "access.") {
				return []mc.Outcome{w.OK(r), mc.Raw("deny", `{"result":{"get":false}}`), mc.Timeout()}
			}
			return nil
		},
	})
	lim := &mc.Scenario{
		Name: "count/limit-256", Props: props, Monitors: allMons(), MaxPoints: 4000,
		Init: func(w *mc.World) {
			basicInit(w)
			w.Svc.Call = func(name, method, payload string) string {
				if method == "ref" || method == "new" {
					return `{"resource":{"rid":"test.y"}}`
				}
				return `{"result":{"ok":true}}`
			}
		},
		Bound: map[string]int{"quick": 0, "thorough": 1},
	}
	var script []mc.ClientReq
	for i := 0; i < 258; i++ {
		script = append(script, syncReq("subscribe.test.y", "", 0))
	}
	// resource responses that name the resource at its limit: one reply each, with an error entry
	script = append(script, syncReq("call.test.m.ref", "", 0), syncReq("auth.test.m.ref", "", 0), syncReq("new.test.c", "", 0))
	script = append(script, syncReq("unsubscribe.test.y", `{"count":257}`, 0), syncReq("unsubscribe.test.y", `{"count":256}`, 0), syncReq("unsubscribe.test.y", "", 0), syncReq("subscribe.test.y", "", 0))
	lim.Conns = []mc.ConnSpec{conn(latest, script...)}
	out = append(out, lim)
	return out
}

// ---------------------------------------------------------------------------
// cache/*: cache entry lifecycle (C09)
// ---------------------------------------------------------------------------

func disc(i int, phase int) mc.Op {
	return op(fmt.Sprintf("disconnect-c%d", i+1), phase, func(w *mc.World) { w.Disconnect(w.Conns[i]) })
}

func cacheScenarios(tier string) []*mc.Scenario {
	var out []*mc.Scenario
	props := []string{"C09"}
	// two connections subscribe to an uncached resource, and the second one's
	// request arrives and is handled while the first one's mq.Subscribe call is
	// still in progress (a window opened inside that call, see Sched.Window):
	// on the unchanged tree the second connection waits for the cache lock
	out = append(out, &mc.Scenario{
		Name: "cache/subscribe-window", Props: props, Monitors: allMons(),
		Init: func(w *mc.World) {
			basicInit(w)
			w.MQ.SubWindow = func(ns string) {
				if ns != "event.test.x" || w.Data["window"] != nil || len(w.Conns) < 2 || w.Conns[1].Disposed {
					return
				}
				w.Data["window"] = "used"
				w.SendRequest(w.Conns[1], "subscribe.test.x", "")
				for i := 0; i < 2000; i++ { // until the connection worker has picked the request up
					if a := w.S.ConnActor(w.Conns[1].CID); a != nil {
						w.S.Window(a, 30*time.Millisecond)
						return
					}
					time.Sleep(50 * time.Microsecond)
				}
			}
		},
		Conns: []mc.ConnSpec{
			conn(latest, req("subscribe.test.x", 1), req("unsubscribe.test.x", 3)),
			conn(latest, mc.ClientReq{Method: "unsubscribe.test.x", Phase: 3, When: func(w *mc.World) bool { return w.Data["window"] != nil }}),
		},
		Threads: []mc.Thread{{Name: "svc", Ops: []mc.Op{
			op("x.n=1", 2, func(w *mc.World) { w.Svc.Change("test.x", "n", `1`) }),
		}}},
		Bound: map[string]int{"quick": 1, "thorough": 2},
	})
	// a system reset that finds the entry unused and waiting for eviction: the
	// re-fetch is a request in flight, the entry and its event subscription are
	// kept until it is answered (with and without reset throttle; the get answer
	// is slow, so the eviction timer gets its chance first)
	for _, n := range []int{0, 1} {
		n := n
		out = append(out, &mc.Scenario{
			Name: fmt.Sprintf("cache/reset-idle/throttle%d", n), Props: append(props, "C12"), Init: basicInit, Monitors: allMons(),
			Cfg:  func(c *server.Config) { c.ResetThrottle = n },
			Conns: []mc.ConnSpec{
				conn(latest, req("subscribe.test.x", 0), req("subscribe.test.m", 0), req("unsubscribe.test.x", 1), req("unsubscribe.test.m", 1)),
				conn(latest, req("subscribe.test.x", 3)),
			},
			Threads: []mc.Thread{{Name: "svc", Ops: []mc.Op{
				op("x:=10", 2, func(w *mc.World) { w.Svc.Model("test.x", "n", `10`) }),
				op("reset", 2, func(w *mc.World) { w.Svc.Reset([]string{"test.>"}, nil) }),
				disc(0, 4), disc(1, 4),
			}}},
			Slow:  func(r *mc.Req) bool { return subjectIs(r, "get.") && !strings.HasSuffix(r.Name, "#0") },
			Bound: map[string]int{"quick": 2, "thorough": 3},
		})
	}
	out = append(out, &mc.Scenario{
		Name: "cache/lifecycle", Props: props, Init: basicInit, Monitors: allMons(),
		Conns: []mc.ConnSpec{
			conn(latest, req("subscribe.test.m", 0), req("unsubscribe.test.m", 1), req("subscribe.test.x", 3)),
			conn(latest, req("subscribe.test.x", 0)),
		},
		Threads: []mc.Thread{{Name: "env", Ops: []mc.Op{disc(1, 2), disc(0, 4)}}},
	})
	out = append(out, &mc.Scenario{
		Name: "cache/errors", Props: props, Init: basicInit, Monitors: allMons(),
		Conns: []mc.ConnSpec{
			conn(latest, req("subscribe.test.err", 0), req("get.test.c", 0), req("subscribe.test.err", 1)),
			conn(latest, req("subscribe.test.c", 0), req("subscribe.test.err2", 0)),
		},
		Threads: []mc.Thread{{Name: "env", Ops: []mc.Op{disc(0, 2), disc(1, 2)}}},
		Menu:    menuStd(false, true),
	})
	// a parent whose references fail to load, subscribed again (by another
	// connection, and by the same one) while the failed entries wait for their
	// eviction: a reference takes no access request along, so nothing but the
	// get path itself accounts for the use of the failed entry
	out = append(out, &mc.Scenario{
		Name: "cache/error-reference", Props: props, Monitors: allMons(),
		Init: func(w *mc.World) {
			basicInit(w)
			w.Svc.Model("test.pe", "e", ref("test.err"), "e2", ref("test.err2"), "x", ref("test.x"))
		},
		Conns: []mc.ConnSpec{
			conn(latest, req("subscribe.test.pe", 0), req("unsubscribe.test.pe", 1), req("subscribe.test.pe", 3)),
			conn(latest, req("subscribe.test.pe", 2), req("get.test.err", 2)),
		},
		Threads: []mc.Thread{{Name: "env", Ops: []mc.Op{disc(1, 4), disc(0, 5)}}},
	})
	out = append(out, &mc.Scenario{
		Name: "cache/delete-rereference", Props: props, Init: basicInit, Monitors: allMons(),
		Conns: []mc.ConnSpec{
			conn(latest, req("subscribe.test.m", 0), req("subscribe.test.c", 0)),
			conn(latest, req("subscribe.test.x", 2)),
		},
		Threads: []mc.Thread{{Name: "svc", Ops: []mc.Op{
			op("x.delete", 1, func(w *mc.World) { w.Svc.Delete("test.x") }),
			op("x.recreate", 1, func(w *mc.World) { w.Svc.Model("test.x", "n", `10`) }),
			op("c.add=x", 1, func(w *mc.World) { w.Svc.Add("test.c", 0, ref("test.x")) }),
			disc(0, 3), disc(1, 4),
		}}},
	})
	long := strings.Repeat("a", 4100)
	out = append(out, &mc.Scenario{
		Name: "cache/subject-too-long", Props: props, Init: basicInit, Monitors: allMons(),
		Conns: []mc.ConnSpec{
			conn(latest, req("subscribe.test."+long, 0), req("subscribe.test.m", 0), req("get.test."+long[:4070], 0)),
		},
		Threads: []mc.Thread{{Name: "env", Ops: []mc.Op{disc(0, 1)}}},
	})
	out = append(out, &mc.Scenario{
		Name: "cache/inflight", Props: props, Init: basicInit, Monitors: allMons(),
		Conns: []mc.ConnSpec{
			conn(latest, req("subscribe.test.x", 0), reqp("call.test.x.set", `{}`, 0), req("unsubscribe.test.x", 0), req("get.test.y", 0), reqp("auth.test.y.login", `{}`, 0)),
			conn(latest, req("get.test.x", 1)),
		},
		Threads: []mc.Thread{{Name: "env", Ops: []mc.Op{disc(0, 2), disc(1, 2)}}},
		Menu: func(w *mc.World, r *mc.Req) []mc.Outcome {
			if subjectIs(r, "call.") || subjectIs(r, "auth.") {
				return []mc.Outcome{w.OK(r), mc.Timeout()}
			}
			return nil
		},
	})
	out = append(out, &mc.Scenario{
		Name: "cache/query", Props: append(props, "C13"), Init: queryInit(map[string]string{"a": "n", "b": "n"}), Monitors: allMons(queryMon),
		Conns: []mc.ConnSpec{
			conn(latest, req("subscribe.test.q?a", 0), req("subscribe.test.q?b", 0), req("unsubscribe.test.q?a", 1)),
			conn(latest, req("subscribe.test.q?n", 0), req("subscribe.test.q", 1)),
		},
		Threads: []mc.Thread{{Name: "env", Ops: []mc.Op{disc(1, 2), disc(0, 3)}}},
	})
	return out
}

// queryInit defines a query resource test.q with normalisation map.
func queryInit(norm map[string]string) func(w *mc.World) {
	return func(w *mc.World) {
		basicInit(w)
		s := w.Svc
		s.Norm = func(name, q string) string {
			if n, ok := norm[q]; ok {
				return n
			}
			return q
		}
		seen := map[string]bool{}
		for _, q := range []string{"a", "b", "c", "n"} {
			nq := s.Norm("test.q", q)
			if !seen[nq] {
				seen[nq] = true
				s.Model("test.q?"+nq, "n", `0`, "q", fmt.Sprintf("%q", nq))
			}
		}
		s.Model("test.q", "base", `true`, "n", `0`)
	}
}

var _ = server.Version
