package checks

import (
	"fmt"
	"strings"
	"time"

	"github.com/resgateio/resgate/server/codec"
	"github.com/resgateio/resgate/server/rescache"
	"verif/harness/run"
)

// enumCanCall: all (call list, method) pairs over a small token alphabet.
func enumCanCall(tier string, _ time.Time) *run.EnumResult {
	max := 6
	if tier == "thorough" {
		max = 7
	}
	al := []string{"a", "b", "ab", ",", "*"}
	var strs []string
	strs = append(strs, "")
	allStrings(al, max, func(s string) {
		if len(s) <= max {
			strs = append(strs, s)
		}
	})
	// dedupe ("ab" vs "a"+"b")
	seen := map[string]bool{}
	var uniq []string
	for _, s := range strs {
		if !seen[s] {
			seen[s] = true
			uniq = append(uniq, s)
		}
	}
	var methods []string
	for _, s := range uniq {
		// a comma is a legal character of a method name: such a method can
		// never be an entry of the comma separated list
		if len(s) <= 3 {
			methods = append(methods, s)
		}
	}
	res := &run.EnumResult{Exhaustive: true, Rule: fmt.Sprintf("call matcher: every call list over {a,b,ab,\",\",*} up to %d bytes x every method up to 3 bytes over {a,b,\",\",*} through the real Access.CanCall; reference: list == \"*\" or method is an exact entry of the comma separated list; distinct_nontrivial counts pairs with a non-empty list other than \"*\"", max)}
	for _, list := range uniq {
		for _, m := range methods {
			if m == "" {
				continue
			}
			res.Evaluations++
			if list != "" && list != "*" {
				res.Distinct++
			}
			a := &rescache.Access{AccessResult: &codec.AccessResult{Get: true, Call: list}}
			got := a.CanCall(m) == nil
			want := list == "*"
			if !want {
				for _, e := range strings.Split(list, ",") {
					if e == m {
						want = true
					}
				}
			}
			if list == "" {
				want = false
			}
			if got != want && len(res.Found) < 5 {
				res.Found = append(res.Found, run.EnumFound{Kind: "cancall-disagreement", Msg: fmt.Sprintf("call list %q method %q: granted=%v, reference %v", list, m, got, want), Input: []string{list, m}})
			}
		}
	}
	res.Samples = []interface{}{[]string{"a,ab", "b"}, []string{"ab,,a", "a"}, []string{"*,a", "b"}}
	return res
}

// enumThrottle: every sequence of Add / Done / run-continuation up to a
// length, on the exported Throttle with limits 1..3.
func enumThrottle(tier string, _ time.Time) *run.EnumResult {
	max := 12
	if tier == "thorough" {
		max = 15
	}
	res := &run.EnumResult{Exhaustive: true, Rule: fmt.Sprintf("Throttle: every sequence of {Add, Done of a running callback, run a released continuation} up to length %d for limits 1..3 on the real rescache.Throttle (go statements captured by the verif hook); oracle: running <= limit always, callbacks start in FIFO order, every Add has started once all started callbacks are done; distinct_nontrivial counts sequences in which at least one Add had to wait", max)}
	for limit := 1; limit <= 3; limit++ {
		var rec func(seq []byte)
		rec = func(seq []byte) {
			ok, waited, en := runThrottleSeq(limit, seq, res)
			if !ok {
				return
			}
			res.Evaluations++
			if waited {
				res.Distinct++
			}
			if len(seq) == max {
				return
			}
			for _, op := range en {
				rec(append(append([]byte(nil), seq...), op))
			}
		}
		rec(nil)
	}
	res.Samples = []interface{}{"limit=1: A A D R D", "limit=2: A A A D D R D"}
	return res
}

// runThrottleSeq replays seq on a fresh throttle. Ops: 'A' add, 'D' done of the
// oldest running callback, 'R' run the oldest released continuation.
// It returns the ops enabled after the sequence.
func runThrottleSeq(limit int, seq []byte, res *run.EnumResult) (ok bool, waited bool, enabled []byte) {
	defer func() {
		if r := recover(); r != nil {
			if len(res.Found) < 5 {
				res.Found = append(res.Found, run.EnumFound{Kind: "throttle", Msg: fmt.Sprintf("limit %d, sequence %s: panic: %v", limit, seq, r), Input: string(seq)})
			}
			ok, enabled = false, nil
		}
	}()
	// release order: a slot per callback in the order the throttle released
	// it (called directly by Add, or handed to a go statement by Done)
	var slots []*int
	var tasks []func()
	var pendingSlot []*int
	old := rescache.VerifHooks
	rescache.VerifHooks = &rescache.VerifHookSet{Go: func(f func()) bool {
		sl := new(int)
		*sl = -1
		slots = append(slots, sl)
		pendingSlot = append(pendingSlot, sl)
		tasks = append(tasks, f)
		return true
	}}
	defer func() { rescache.VerifHooks = old }()
	t := rescache.NewThrottle(limit)
	added, started, running, done := 0, 0, 0, 0
	var cur *int
	fail := func(msg string) {
		if len(res.Found) < 5 {
			res.Found = append(res.Found, run.EnumFound{Kind: "throttle", Msg: fmt.Sprintf("limit %d, sequence %s: %s", limit, seq, msg), Input: string(seq)})
		}
	}
	for _, op := range seq {
		switch op {
		case 'A':
			id := added
			added++
			cur = nil
			t.Add(func() {
				started++
				running++
				if cur != nil {
					*cur = id
				} else {
					sl := new(int)
					*sl = id
					slots = append(slots, sl)
				}
			})
			if started < added {
				waited = true
			}
		case 'D':
			running--
			done++
			t.Done()
		case 'R':
			f := tasks[0]
			tasks = tasks[1:]
			cur = pendingSlot[0]
			pendingSlot = pendingSlot[1:]
			f()
			cur = nil
		}
		// released but not finished: started-and-not-done plus released continuations
		if running+len(tasks) > limit {
			fail(fmt.Sprintf("%d callbacks released and not done", running+len(tasks)))
			return false, waited, nil
		}
		last := -1
		for _, sl := range slots {
			if *sl < 0 {
				continue
			}
			if *sl < last {
				fail("callbacks were not released in FIFO order")
				return false, waited, nil
			}
			last = *sl
		}
	}
	// liveness: with nothing running and no continuation pending, everything added has started
	if running == 0 && len(tasks) == 0 && started != added {
		fail(fmt.Sprintf("%d of %d callbacks never started although nothing is running", added-started, added))
		return false, waited, nil
	}
	enabled = append(enabled, 'A')
	if running > 0 {
		enabled = append(enabled, 'D')
	}
	if len(tasks) > 0 {
		enabled = append(enabled, 'R')
	}
	return true, waited, enabled
}
