package checks

import (
	"encoding/json"
	"fmt"
	"net/url"
	"sort"
	"strings"
	"time"

	"github.com/resgateio/resgate/server"
	"verif/harness/mc"
	"verif/harness/run"
)

// node of an enumerated resource graph
type gNode struct {
	kind  string   // model, collection, error
	slots []string // slot codes: "p" primitive, "d" data, "s<j>" soft ref, "r<j>" ref
}

const oddKey = "k\"é<"

func slotValue(code string, names []string) string {
	switch code[0] {
	case 'p':
		return `"prim"`
	case 'd':
		return `{"data":{"k":[1,{"z":null}]}}`
	case 's':
		return soft(names[code[1]-'0'])
	case 'r':
		return ref(names[code[1]-'0'])
	}
	panic(code)
}

func href(apiPath, rid string) string {
	return apiPath + strings.Replace(url.PathEscape(rid), ".", "/", -1)
}

// refRender is the independent reference renderer of the statement.
func refRender(g []gNode, names []string, i int, path []int, flat bool, apiPath string, top bool) interface{} {
	n := g[i]
	for _, p := range path {
		if p == i {
			return map[string]interface{}{"href": href(apiPath, names[i])}
		}
	}
	var content interface{}
	key := ""
	switch n.kind {
	case "error":
		content = map[string]interface{}{"code": "system.notFound", "message": "Error system.notFound"}
		key = "error"
	case "model":
		m := map[string]interface{}{}
		keys := []string{"a", oddKey}
		for k, s := range n.slots {
			m[keys[k]] = refValue(g, names, s, append(path, i), flat, apiPath)
		}
		content = m
		key = "model"
	case "collection":
		l := []interface{}{}
		for _, s := range n.slots {
			l = append(l, refValue(g, names, s, append(path, i), flat, apiPath))
		}
		content = l
		key = "collection"
	}
	if top || flat {
		return content
	}
	return map[string]interface{}{"href": href(apiPath, names[i]), key: content}
}

func refValue(g []gNode, names []string, code string, path []int, flat bool, apiPath string) interface{} {
	switch code[0] {
	case 'p':
		return "prim"
	case 'd':
		return map[string]interface{}{"k": []interface{}{json.Number("1"), map[string]interface{}{"z": nil}}}
	case 's':
		return map[string]interface{}{"href": href(apiPath, names[code[1]-'0'])}
	default:
		return refRender(g, names, int(code[1]-'0'), path, flat, apiPath, false)
	}
}

func canonAny(v interface{}) string {
	b, _ := json.Marshal(v)
	return mc.CanonJSON(b)
}

// nodeVariants enumerates the variants of one node for graphs of n nodes.
func nodeVariants(n int, full bool) []gNode {
	var slots []string
	slots = append(slots, "p")
	if full {
		slots = append(slots, "d")
	}
	for j := 0; j < n; j++ {
		if full {
			slots = append(slots, fmt.Sprintf("s%d", j))
		}
		slots = append(slots, fmt.Sprintf("r%d", j))
	}
	var out []gNode
	out = append(out, gNode{kind: "error"})
	for _, a := range slots {
		for _, b := range slots {
			out = append(out, gNode{kind: "model", slots: []string{a, b}})
		}
	}
	out = append(out, gNode{kind: "collection"})
	for _, a := range slots {
		out = append(out, gNode{kind: "collection", slots: []string{a}})
		for _, b := range slots {
			out = append(out, gNode{kind: "collection", slots: []string{a, b}})
		}
	}
	return out
}

func graphDesc(g []gNode) string {
	var p []string
	for i, n := range g {
		p = append(p, fmt.Sprintf("n%d:%s%v", i, n.kind[:1], n.slots))
	}
	return strings.Join(p, " ")
}

func reachable(g []gNode) bool {
	seen := make([]bool, len(g))
	var visit func(i int)
	visit = func(i int) {
		if seen[i] {
			return
		}
		seen[i] = true
		for _, s := range g[i].slots {
			if s[0] == 'r' {
				visit(int(s[1] - '0'))
			}
		}
	}
	visit(0)
	for _, s := range seen {
		if !s {
			return false
		}
	}
	return true
}

func enumC16(tier string, part, parts, skip int, deadline time.Time, note func(int, string)) *run.EnumResult {
	res := &run.EnumResult{Exhaustive: true, Rule: "HTTP rendering: every rooted resource graph (all nodes reachable over non-soft references from the root) with <=2 nodes over the full slot alphabet {primitive, data value, soft ref->j, ref->j} and with 3 nodes over {primitive, ref->j} (thorough: full alphabet), node kinds {model with 2 keys incl. one needing escapes, collection with 0..2 items, error leaf}, both encodings, apiPath in {/api/, /}; GET and HEAD through Service.ServeHTTP against an independent recursive renderer (value equality of JSON); plus models whose keys need JSON escaping (control characters, quotes, backslash, <>&, non-ASCII, U+2028/9, empty key) in both encodings; plus POST result/resource/error cases. distinct_nontrivial counts graphs containing a cycle, a shared child or an error leaf"}
	idx := -1
	var w *mc.World
	var curCfg string
	used := 0
	active := func(desc string) bool {
		idx++
		if idx%parts != part || idx < skip {
			return false
		}
		if time.Now().After(deadline) {
			res.Exhaustive = false
			return false
		}
		note(idx, desc)
		return true
	}
	fail := func(kind, msg string, in interface{}) {
		if len(res.Found) < 6 {
			res.Found = append(res.Found, run.EnumFound{Kind: kind, Msg: msg, Input: in})
		}
	}
	defer func() {
		if w != nil {
			w.Close()
		}
	}()
	world := func(enc, apiPath string) {
		name := enc + " " + apiPath
		if w != nil && curCfg == name && used < 400 && !w.Hung {
			return
		}
		if w != nil {
			w.Close()
		}
		curCfg = name
		used = 0
		w = mc.NewWorld(&mc.Scenario{Name: "c16", Cfg: func(c *server.Config) {
			c.APIEncoding = enc
			c.APIPath = apiPath
			if apiPath == "/" {
				c.WSPath = "/ws"
			}
		}})
	}
	gi := 0
	doGraph := func(g []gNode, enc, apiPath string) {
		desc := fmt.Sprintf("%s %s %s", enc, apiPath, graphDesc(g))
		if !active(desc) {
			return
		}
		world(enc, apiPath)
		used++
		gi++
		names := make([]string, len(g))
		for i := range g {
			names[i] = fmt.Sprintf("g%d.n%d", gi, i)
		}
		for i, n := range g {
			switch n.kind {
			case "error":
				w.Svc.Error(names[i], "system.notFound")
			case "model":
				w.Svc.Model(names[i], "a", slotValue(n.slots[0], names), oddKey, slotValue(n.slots[1], names))
			case "collection":
				var vs []string
				for _, s := range n.slots {
					vs = append(vs, slotValue(s, names))
				}
				w.Svc.Collection(names[i], vs...)
			}
		}
		path := strings.ReplaceAll(names[0], ".", "/")
		hg := w.HTTP(mc.HTTPReq{Method: "GET", URL: apiPath + path})
		okG := w.Drain(2000)
		hh := w.HTTP(mc.HTTPReq{Method: "HEAD", URL: apiPath + path})
		okH := w.Drain(2000)
		res.Evaluations++
		nontrivial := false
		refd := map[string]int{}
		for _, n := range g {
			if n.kind == "error" {
				nontrivial = true
			}
			for _, s := range n.slots {
				if s[0] == 'r' {
					refd[s]++
					if refd[s] > 1 || s == "r0" {
						nontrivial = true
					}
				}
			}
		}
		if nontrivial {
			res.Distinct++
		}
		if !okG || !okH || !hg.Done || !hh.Done {
			fail("no-termination", "rendering did not terminate: "+desc, desc)
			w.Hung = true
			return
		}
		if g[0].kind == "error" {
			if hg.Rec.Code != 404 {
				fail("status", fmt.Sprintf("%s: status %d for an error root, expected 404", desc, hg.Rec.Code), desc)
			}
		} else {
			want := canonAny(refRender(g, names, 0, nil, enc == "jsonflat", apiPath, true))
			got := mc.CanonJSON(hg.Rec.Body.Bytes())
			if hg.Rec.Code != 200 || got != want {
				fail("render-mismatch", fmt.Sprintf("%s: status %d body %s, reference %s", desc, hg.Rec.Code, got, want), desc)
			}
		}
		if hh.Rec.Code != hg.Rec.Code || fmt.Sprint(headerList(hh)) != fmt.Sprint(headerList(hg)) {
			fail("head-differs", fmt.Sprintf("%s: HEAD %d %v vs GET %d %v", desc, hh.Rec.Code, headerList(hh), hg.Rec.Code, headerList(hg)), desc)
		}
		if len(res.Samples) < 3 && nontrivial && len(g) == 3 {
			res.Samples = append(res.Samples, desc)
		}
	}
	for _, enc := range []string{"json", "jsonflat"} {
		for _, apiPath := range []string{"/api/", "/"} {
			for n := 1; n <= 3; n++ {
				full := n <= 2 || tier == "thorough"
				if n == 3 && apiPath == "/" && tier != "thorough" {
					continue
				}
				vars := nodeVariants(n, full)
				g := make([]gNode, n)
				var rec func(i int)
				rec = func(i int) {
					if i == n {
						if reachable(g) {
							doGraph(append([]gNode(nil), g...), enc, apiPath)
						}
						return
					}
					for _, v := range vars {
						g[i] = v
						rec(i + 1)
					}
				}
				rec(0)
			}
		}
	}
	// model keys that need (or look as if they need) JSON escaping, one or two per model
	escKeys := []string{"\t", "\n", "\x00", "\x01", "\x1f", "\x7f", " ", "a b", "<", ">", "&", "\\", "\"", "/", "é", "\u2028", "\u2029", "\ufffd", "", "a\tb", "\tk\"", "k\n<"}
	for _, enc := range []string{"json", "jsonflat"} {
		for i, k1 := range escKeys {
			for j, k2 := range append([]string{"plain"}, escKeys...) {
				if j > 0 && (tier != "thorough" || k2 == k1) {
					continue
				}
				desc := fmt.Sprintf("keys %s %q %q", enc, k1, k2)
				if !active(desc) {
					continue
				}
				world(enc, "/api/")
				used++
				gi++
				name := fmt.Sprintf("g%d.k%d", gi, i)
				w.Svc.Model(name, k1, `1`, k2, `"v"`)
				hg := w.HTTP(mc.HTTPReq{Method: "GET", URL: "/api/" + strings.ReplaceAll(name, ".", "/")})
				ok := w.Drain(2000)
				res.Evaluations++
				res.Distinct++
				if !ok || !hg.Done {
					fail("no-termination", "rendering did not terminate: "+desc, desc)
					w.Hung = true
					continue
				}
				want := canonAny(map[string]interface{}{k1: 1, k2: "v"})
				got := mc.CanonJSON(hg.Rec.Body.Bytes())
				if hg.Rec.Code != 200 || got != want {
					fail("render-mismatch", fmt.Sprintf("%s: status %d body %q, reference %s", desc, hg.Rec.Code, hg.Rec.Body.String(), want), desc)
				}
			}
		}
	}
	// resource ids with characters that need escaping in a URL path: the href the gateway renders for
	// such a resource, requested as it is, has to lead to that very resource
	for _, enc := range []string{"json", "jsonflat"} {
		for i, part := range []string{"a/b", "a%2Fb", "a%b", "a+b", "a=b&c", "a#b", "a;b", "%", "a:b", "a,b", "a@b", "~"} {
			desc := fmt.Sprintf("rid-part %s %q", enc, part)
			if !active(desc) {
				continue
			}
			world(enc, "/api/")
			used++
			gi++
			parent := fmt.Sprintf("g%d.p%d", gi, i)
			child := fmt.Sprintf("g%d.%s", gi, part)
			w.Svc.Model(child, "a", `1`)
			w.Svc.Model(parent, "c", soft(child)) // a soft reference is rendered as a bare href in both encodings
			hp := w.HTTP(mc.HTTPReq{Method: "GET", URL: "/api/" + strings.ReplaceAll(parent, ".", "/")})
			ok := w.Drain(2000)
			res.Evaluations++
			res.Distinct++
			if !ok || !hp.Done || hp.Rec.Code != 200 {
				fail("render-mismatch", fmt.Sprintf("%s: GET of the parent: status %d", desc, hp.Rec.Code), desc)
				continue
			}
			// the href of the child as rendered (json: nested object with href; jsonflat: {"href":...})
			var body map[string]interface{}
			json.Unmarshal(hp.Rec.Body.Bytes(), &body)
			h, _ := body["c"].(map[string]interface{})
			hrefStr, _ := h["href"].(string)
			if hrefStr != href("/api/", child) {
				fail("render-mismatch", fmt.Sprintf("%s: href of the child is %q, reference %q (body %s)", desc, hrefStr, href("/api/", child), hp.Rec.Body.String()), desc)
				continue
			}
			hc := w.HTTP(mc.HTTPReq{Method: "GET", URL: hrefStr})
			ok = w.Drain(2000)
			want := canonAny(map[string]interface{}{"a": 1})
			if !ok || !hc.Done || hc.Rec.Code != 200 || mc.CanonJSON(hc.Rec.Body.Bytes()) != want {
				fail("href-does-not-lead-back", fmt.Sprintf("%s: GET %s: status %d body %q, expected the child %s", desc, hrefStr, hc.Rec.Code, hc.Rec.Body.String(), want), desc)
			}
		}
	}
	// POST
	type postCase struct {
		name, response string
		wantStatus     int
		wantBody       string
		wantLoc        string
	}
	posts := []postCase{
		{"null", `{"result":null}`, 204, "", ""},
		{"number", `{"result":12}`, 200, `12`, ""},
		{"string", `{"result":"x\"y"}`, 200, `"x\"y"`, ""},
		{"object", `{"result":{"a":[1,2,{"b":null}],"é":"<>"}}`, 200, `{"a":[1,2,{"b":null}],"é":"<>"}`, ""},
		{"array", `{"result":[{"rid":"test.x"}]}`, 200, `[{"rid":"test.x"}]`, ""},
		{"false", `{"result":false}`, 200, `false`, ""},
		{"resource", `{"resource":{"rid":"test.x.y?q=1"}}`, 200, "", "PATH:test.x.y?q=1"},
		{"error", `{"error":{"code":"system.invalidParams","message":"Bad"}}`, 400, `{"code":"system.invalidParams","message":"Bad"}`, ""},
		{"missing", `{}`, 500, "", ""},
	}
	for _, enc := range []string{"json", "jsonflat"} {
		for _, apiPath := range []string{"/api/", "/"} {
			for _, mapped := range []bool{false, true} {
				for _, pc := range posts {
					pc := pc
					desc := fmt.Sprintf("POST %s %s mapped=%v %s", enc, apiPath, mapped, pc.name)
					if !active(desc) {
						continue
					}
					if w != nil {
						w.Close()
					}
					curCfg = ""
					w = mc.NewWorld(&mc.Scenario{Name: "c16post", Cfg: func(c *server.Config) {
						c.APIEncoding = enc
						c.APIPath = apiPath
						if apiPath == "/" {
							c.WSPath = "/ws"
						}
						if mapped {
							m := "put"
							c.PUTMethod = &m
						}
					}, Init: func(w *mc.World) {
						w.Svc.Model("test.m", "a", `1`)
						w.Svc.Call = func(_, _, _ string) string { return pc.response }
					}})
					method, u := "POST", apiPath+"test/m/act"
					if mapped {
						method, u = "PUT", apiPath+"test/m"
					}
					h := w.HTTP(mc.HTTPReq{Method: method, URL: u, Body: `{"p":1}`})
					w.Drain(500)
					res.Evaluations++
					res.Distinct++
					if !h.Done {
						fail("no-termination", desc, desc)
						continue
					}
					if h.Rec.Code != pc.wantStatus {
						fail("post-status", fmt.Sprintf("%s: status %d, expected %d", desc, h.Rec.Code, pc.wantStatus), desc)
					}
					if pc.wantBody != "" && mc.CanonJSON(h.Rec.Body.Bytes()) != mc.CanonJSON([]byte(pc.wantBody)) {
						fail("post-body", fmt.Sprintf("%s: body %s, expected %s", desc, h.Rec.Body.String(), pc.wantBody), desc)
					}
					if pc.wantStatus == 204 && h.Rec.Body.Len() != 0 {
						fail("post-body", fmt.Sprintf("%s: body %q with 204", desc, h.Rec.Body.String()), desc)
					}
					if strings.HasPrefix(pc.wantLoc, "PATH:") {
						want := href(apiPath, pc.wantLoc[5:])
						if got := h.Rec.Header().Get("Location"); got != want {
							fail("post-location", fmt.Sprintf("%s: Location %q, expected %q", desc, got, want), desc)
						}
					}
				}
			}
		}
	}
	return res
}

func headerList(h *mc.HTTPCall) []string {
	var out []string
	for k, v := range h.Rec.Header() {
		out = append(out, k+"="+strings.Join(v, ","))
	}
	sort.Strings(out)
	return out
}

func init() {
	register(&run.Check{
		Prop:        "C16",
		Level:       "exploration",
		EnumPar:     enumC16,
		EnumParts:   map[string]int{"quick": 64, "thorough": 256},
		Budget:      map[string]time.Duration{"quick": 120 * time.Second, "thorough": 25 * time.Minute},
		Assumptions: []string{"the reference renderer implements the expansion rules of the statement (path-based cycle cut, href for soft and re-entered references, errors in place)", "resources are loaded and unchanged while the response is rendered (sequential default schedule)"},
	})
}
