package checks

import (
	"strings"
	"time"

	"verif/harness/mc"
	"verif/harness/run"
)

var e1Assumptions = []string{
	"closure-granularity scheduling (DESIGN 2.1); Go map iteration order inside one closure is observed, not enumerated",
	"atomic service model: responses are computed when delivered; events of one resource are delivered in order",
	"eviction timers fire in queue order, each in the two phases of the original timer loop (overlay of jirenius/timerqueue)",
}

func init() {
	for _, p := range []string{"C01", "C02", "C03", "C04", "C05", "C06", "C07", "C08", "C09", "C10", "C11", "C13", "C19"} {
		p := p
		register(&run.Check{
			Prop:  p,
			Level: "model_checking",
			Scenarios: func(tier string) []*mc.Scenario {
				return scenariosFor(p, tier)
			},
			Bound:       map[string]int{"quick": 2, "thorough": 3},
			Assumptions: e1Assumptions,
			Also:        also[p],
			Enum:        enums[p],
			MSpecs:      mspecs[p],
		})
	}
}

// also: violations of these properties inside a property's own scenarios count for it.
var also = map[string][]string{
	"C03": {"C01"}, // an event that is lost for one holder shows as a client copy that stays behind
	"C06": {"C03"},
	"C11": {"C09", "C07", "C19"},
	"C13": {"C01", "C03", "C07"},
	"C19": {"C07", "C01", "C06"},
}

var enums = map[string]func(tier string, deadline time.Time) *run.EnumResult{
	"C05": enumCanCall,
	"C11": enumHandshake,
	"C19": enumThrottle,
}

var mspecs = map[string]func(tier string) []*mc.MSpec{
	"C01": mspecsEvents,
	"C03": mspecsEvents,
	"C02": mspecsC02,
	"C13": mspecsC13,
	"C04": mspecsAccess,
	"C05": mspecsAccess,
	"C06": mspecsAccess9,
	"C07": mspecsC08, // every request mix on one resource: each request answered exactly once
	"C08": mspecsC08,
	"C09": mspecsC09,
	"C10": mspecsC10,
	"C11": mspecsC09, // two connections, the second may go away in any state
}

// allScenarios is the union of all E1 scenario families.
func allScenarios(tier string) []*mc.Scenario {
	var out []*mc.Scenario
	out = append(out, convScenarios(tier)...)
	out = append(out, respScenarios(tier)...)
	out = append(out, countScenarios(tier)...)
	out = append(out, cacheScenarios(tier)...)
	out = append(out, accScenarios(tier)...)
	out = append(out, isoScenarios(tier)...)
	out = append(out, queryScenarios(tier)...)
	out = append(out, thrScenarios(tier)...)
	out = append(out, ordScenarios(tier)...)
	out = append(out, gcScenarios(tier)...)
	out = append(out, discScenarios(tier)...)
	return out
}

// scenariosFor returns the scenarios whose primary properties include p
// with their own bounds, followed by all other scenarios at a reduced bound
// (their universal monitors also judge p).
func scenariosFor(p, tier string) []*mc.Scenario {
	var prim, sec []*mc.Scenario
	for _, s := range allScenarios(tier) {
		is := false
		for _, q := range s.Props {
			if q == p {
				is = true
			}
		}
		if is {
			prim = append(prim, s)
		} else if secondary[p] && !strings.HasPrefix(s.Name, "disc") && !strings.HasPrefix(s.Name, "thr/") {
			c := *s
			c.Bound = map[string]int{"quick": 1, "thorough": 2}
			if b, ok := s.Bound[tier]; ok && b < c.Bound[tier] {
				c.Bound = s.Bound
			}
			sec = append(sec, &c)
		}
	}
	return append(prim, sec...)
}

// secondary lists the properties judged by universal monitors on every scenario.
var secondary = map[string]bool{"C01": true, "C02": true, "C07": true, "C08": true, "C09": true, "C10": true, "C14": true}
