// Package checks defines, per property, the scenarios, alphabets and oracles.
package checks

import (
	"fmt"
	"strings"

	"github.com/resgateio/resgate/server"
	"verif/harness/mc"
	"verif/harness/run"
)

const latest = "1.2.3"

func ver(v string) mc.ClientReq {
	return mc.ClientReq{Method: "version", Params: fmt.Sprintf(`{"protocol":%q}`, v), Phase: -1}
}

func req(method string, phase int) mc.ClientReq {
	return mc.ClientReq{Method: method, Phase: phase}
}

func reqp(method, params string, phase int) mc.ClientReq {
	return mc.ClientReq{Method: method, Params: params, Phase: phase}
}

func op(name string, phase int, f func(w *mc.World)) mc.Op {
	return mc.Op{Name: name, Do: f, Phase: phase}
}

// conn builds a connection spec: version handshake (if v != "") followed by the script.
func conn(v string, script ...mc.ClientReq) mc.ConnSpec {
	if v != "" {
		script = append([]mc.ClientReq{ver(v)}, script...)
	}
	return mc.ConnSpec{Version: v, Script: script}
}

func ref(rid string) string  { return fmt.Sprintf(`{"rid":%q}`, rid) }
func soft(rid string) string { return fmt.Sprintf(`{"rid":%q,"soft":true}`, rid) }
func data(js string) string  { return `{"data":` + js + `}` }

// stdMons are the monitors every E1 scenario carries.
func stdMons(extra ...mc.Monitor) func(w *mc.World) []mc.Monitor {
	return func(w *mc.World) []mc.Monitor {
		m := []mc.Monitor{&mc.ClientMon{}, &mc.ConvMon{}, &mc.CacheMon{}, &mc.SubjectMon{}}
		return append(m, extra...)
	}
}

// subjectIs reports whether a request is for the given type prefix ("get.", "access.", …).
func subjectIs(r *mc.Req, prefix string) bool { return strings.HasPrefix(r.Subject, prefix) }

func cfgNone(*server.Config) {}

func register(c *run.Check) { run.Registry[c.Prop] = c }

// withProps returns the scenarios that serve the property.
func withProps(prop string, scs []*mc.Scenario) []*mc.Scenario {
	var out []*mc.Scenario
	for _, s := range scs {
		for _, p := range s.Props {
			if p == prop {
				out = append(out, s)
				break
			}
		}
	}
	return out
}
