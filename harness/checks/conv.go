package checks

import (
	"verif/harness/mc"
)

// universe: a model m with primitive, data value, soft reference and a
// reference slot; a collection c; children x, y; a cycle x -> m.
func convInit(w *mc.World) {
	s := w.Svc
	s.Model("test.m", "a", `1`, "d", data(`{"k":[1,2]}`), "s", soft("test.y"), "r", ref("test.x"))
	s.Model("test.x", "n", `0`)
	s.Model("test.y", "n", `0`, "back", ref("test.m"))
	s.Model("test.z", "self", ref("test.z"), "n", `0`)
	s.Collection("test.c", `"a"`, ref("test.x"), `"b"`)
}

func convScenarios(tier string) []*mc.Scenario {
	var out []*mc.Scenario
	add := func(s *mc.Scenario) {
		if s.Init == nil {
			s.Init = convInit
		}
		if s.Monitors == nil {
			s.Monitors = allMons()
		}
		if s.Props == nil {
			s.Props = []string{"C01", "C02"}
		}
		out = append(out, s)
	}
	for _, v := range []string{latest, "1.2.0", ""} {
		v := v
		tag := v
		if tag == "" {
			tag = "legacy"
		}
		// model with changing references: set to a not-yet-cached child, move, clear
		add(&mc.Scenario{
			Name:  "conv/model-refs/" + tag,
			Conns: []mc.ConnSpec{conn(v, req("subscribe.test.m", 0), req("unsubscribe.test.m", 2))},
			Threads: []mc.Thread{{Name: "svc", Ops: []mc.Op{
				op("m.a=2", 1, func(w *mc.World) { w.Svc.Change("test.m", "a", `2`) }),
				op("x.n=1", 1, func(w *mc.World) { w.Svc.Change("test.x", "n", `1`) }),
				op("m.r2=y", 1, func(w *mc.World) { w.Svc.Change("test.m", "r2", ref("test.y")) }),
				op("y.n=1", 1, func(w *mc.World) { w.Svc.Change("test.y", "n", `1`) }),
				op("m.move", 1, func(w *mc.World) { w.Svc.Change("test.m", "r", mc.DeleteAction, "r3", ref("test.x")) }),
				op("m.r2=del", 1, func(w *mc.World) { w.Svc.Change("test.m", "r2", mc.DeleteAction, "d", data(`[3]`)) }),
				op("x.n=2", 1, func(w *mc.World) { w.Svc.Change("test.x", "n", `2`) }),
			}}},
		})
		// collection with references added and removed
		add(&mc.Scenario{
			Name:  "conv/collection/" + tag,
			Conns: []mc.ConnSpec{conn(v, req("subscribe.test.c", 0), req("unsubscribe.test.c", 2))},
			Threads: []mc.Thread{{Name: "svc", Ops: []mc.Op{
				op("c.add0=y", 1, func(w *mc.World) { w.Svc.Add("test.c", 0, ref("test.y")) }),
				op("c.rm2", 1, func(w *mc.World) { w.Svc.Remove("test.c", 2) }),
				op("y.n=1", 1, func(w *mc.World) { w.Svc.Change("test.y", "n", `1`) }),
				op("c.add3=soft", 1, func(w *mc.World) { w.Svc.Add("test.c", 3, soft("test.z")) }),
				op("c.add1=x", 1, func(w *mc.World) { w.Svc.Add("test.c", 1, ref("test.x")) }),
				op("c.rm0", 1, func(w *mc.World) { w.Svc.Remove("test.c", 0) }),
				op("x.n=1", 1, func(w *mc.World) { w.Svc.Change("test.x", "n", `1`) }),
			}}},
		})
	}
	// two clients of different protocol versions share the cached resources
	add(&mc.Scenario{
		Name: "conv/shared",
		Conns: []mc.ConnSpec{
			conn(latest, req("subscribe.test.m", 0), req("unsubscribe.test.m", 2)),
			conn("1.2.0", req("subscribe.test.c", 0), req("subscribe.test.m", 1)),
		},
		Threads: []mc.Thread{{Name: "svc", Ops: []mc.Op{
			op("x.n=1", 1, func(w *mc.World) { w.Svc.Change("test.x", "n", `1`) }),
			op("m.s=data", 1, func(w *mc.World) { w.Svc.Change("test.m", "s", data(`{"q":1}`)) }),
			op("c.add0=y", 1, func(w *mc.World) { w.Svc.Add("test.c", 0, ref("test.y")) }),
			op("x.n=2", 1, func(w *mc.World) { w.Svc.Change("test.x", "n", `2`) }),
			op("c.rm1", 2, func(w *mc.World) { w.Svc.Remove("test.c", 1) }),
			op("m.a=3", 2, func(w *mc.World) { w.Svc.Change("test.m", "a", `3`) }),
		}}},
	})
	// cycles and self references, subscribed from both ends
	add(&mc.Scenario{
		Name: "conv/cycle",
		Conns: []mc.ConnSpec{conn(latest,
			req("subscribe.test.y", 0), req("subscribe.test.z", 0), req("subscribe.test.m", 1),
			req("unsubscribe.test.y", 2), req("unsubscribe.test.m", 3))},
		Threads: []mc.Thread{{Name: "svc", Ops: []mc.Op{
			op("z.n=1", 1, func(w *mc.World) { w.Svc.Change("test.z", "n", `1`) }),
			op("m.a=2", 1, func(w *mc.World) { w.Svc.Change("test.m", "a", `2`) }),
			op("m.r=y", 2, func(w *mc.World) { w.Svc.Change("test.m", "r", ref("test.y")) }),
			op("y.back=del", 2, func(w *mc.World) { w.Svc.Change("test.y", "back", mc.DeleteAction) }),
			op("x.n=5", 3, func(w *mc.World) { w.Svc.Change("test.x", "n", `5`) }),
			op("y.n=2", 3, func(w *mc.World) { w.Svc.Change("test.y", "n", `2`) }),
		}}},
	})
	// silent mutations announced by system.reset
	add(&mc.Scenario{
		Name: "conv/reset",
		Conns: []mc.ConnSpec{
			conn(latest, req("subscribe.test.m", 0), req("subscribe.test.c", 0)),
			conn("1.2.0", req("subscribe.test.c", 0)),
		},
		Threads: []mc.Thread{{Name: "svc", Ops: []mc.Op{
			op("x.n=1", 1, func(w *mc.World) { w.Svc.Change("test.x", "n", `1`) }),
			op("silent", 1, func(w *mc.World) {
				w.Svc.Silent("test.m", func(r *mc.SvcRes) { r.M["a"] = `7`; delete(r.M, "d"); r.M["r"] = ref("test.y") })
				w.Svc.Silent("test.c", func(r *mc.SvcRes) { r.C = []string{`"b"`, ref("test.y"), `"a"`, `"a"`} })
			}),
			op("reset", 1, func(w *mc.World) { w.Svc.Reset([]string{"test.>"}, nil) }),
			op("y.n=3", 2, func(w *mc.World) { w.Svc.Change("test.y", "n", `3`) }),
		}}},
	})
	// a reset whose re-fetch fails, followed by ordinary events
	add(&mc.Scenario{
		Name: "conv/reset-failed",
		Conns: []mc.ConnSpec{
			conn(latest, req("subscribe.test.m", 0), req("subscribe.test.c", 0)),
			conn(latest, req("subscribe.test.c", 2)),
		},
		Threads: []mc.Thread{{Name: "svc", Ops: []mc.Op{
			op("reset", 1, func(w *mc.World) { w.Data["reset"] = true; w.Svc.Reset([]string{"test.m", "test.c"}, nil) }),
			{Name: "m.a=5", Phase: 2, When: noResetWindow, Do: func(w *mc.World) { w.Svc.Change("test.m", "a", `5`) }},
			{Name: "c.add0", Phase: 2, When: noResetWindow, Do: func(w *mc.World) { w.Svc.Add("test.c", 0, `"n"`) }},
			op("reset2", 3, func(w *mc.World) { w.Svc.Reset([]string{"test.>"}, nil) }),
			{Name: "c.rm0", Phase: 3, When: noResetWindow, Do: func(w *mc.World) { w.Svc.Remove("test.c", 0) }},
		}}},
		Menu: func(w *mc.World, r *mc.Req) []mc.Outcome {
			if isRefetch(w, r) {
				return []mc.Outcome{w.OK(r), mc.ResErr("system.internalError"), mc.Timeout()}
			}
			return nil
		},
	})
	// get requests and delete events
	add(&mc.Scenario{
		Name: "conv/get-delete",
		Conns: []mc.ConnSpec{conn(latest,
			req("get.test.m", 0), req("subscribe.test.c", 0), req("get.test.x", 1), req("subscribe.test.x", 2))},
		Threads: []mc.Thread{{Name: "svc", Ops: []mc.Op{
			op("x.n=1", 1, func(w *mc.World) { w.Svc.Change("test.x", "n", `1`) }),
			op("x.delete", 3, func(w *mc.World) { w.Svc.Delete("test.x") }),
			op("c.add0", 3, func(w *mc.World) { w.Svc.Add("test.c", 0, `"z"`) }),
		}}},
	})
	return out
}
