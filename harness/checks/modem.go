package checks

import (
	"fmt"
	"strings"

	"verif/harness/mc"
)

// sendAct is a client request as a Mode M action.
func sendAct(ci int, method, params string) mc.MAct {
	name := fmt.Sprintf("c%d:%s", ci+1, method)
	if params != "" {
		name += params
	}
	return mc.MAct{Name: name, Do: func(w *mc.World) { w.SendRequest(w.Conns[ci], method, params) }}
}

func pendingOn(c *mc.Conn) int { return len(c.Client.Pending) }

// mspecsC08: all sequences of subscribe / get / unsubscribe(count) / call with
// resource response / revocation on one connection and one resource id, with
// every outcome of the access and get requests, the counter capped at 3 and
// at most 2 requests outstanding.
func mspecsC08(tier string) []*mc.MSpec {
	sc := &mc.Scenario{
		Name: "M/count", Init: func(w *mc.World) {
			basicInit(w)
			w.Svc.Call = func(name, method, payload string) string {
				if method == "ref" {
					return `{"resource":{"rid":"test.x"}}`
				}
				return `{"result":null}`
			}
		},
		Conns:    []mc.ConnSpec{{}}, // the version handshake is the first action of the alphabet
		Monitors: allMons(),
		Menu: func(w *mc.World, r *mc.Req) []mc.Outcome {
			switch {
			case subjectIs(r, "access.test.x"):
				return []mc.Outcome{w.OK(r), mc.Raw("deny", `{"result":{"get":false,"call":"*"}}`), mc.Timeout()}
			case subjectIs(r, "get.test.x"):
				return []mc.Outcome{w.OK(r), mc.ResErr("system.notFound"), mc.Timeout()}
			}
			return nil
		},
	}
	return []*mc.MSpec{{
		Name: "count", Scenario: sc,
		MaxDepth: map[string]int{"quick": 9, "thorough": 13},
		Alphabet: func(w *mc.World) []mc.MAct {
			c := w.Conns[0]
			var out []mc.MAct
			if len(c.Client.Done) == 0 && pendingOn(c) == 0 {
				return []mc.MAct{sendAct(0, "version", `{"protocol":"1.2.3"}`)}
			}
			if pendingOn(c) >= 2 {
				return nil
			}
			total := c.Client.Direct["test.x"] + pendingOn(c)
			if total < 3 {
				out = append(out, sendAct(0, "subscribe.test.x", ""), sendAct(0, "call.test.m.ref", ""))
			}
			out = append(out, sendAct(0, "get.test.x", ""), sendAct(0, "unsubscribe.test.x", ""), sendAct(0, "unsubscribe.test.x", `{"count":2}`), sendAct(0, "unsubscribe.test.x", `{"count":0}`))
			if w.Data["revoked"] == nil {
				out = append(out, mc.MAct{Name: "svc:x.reaccess", Do: func(w *mc.World) { w.Data["revoked"] = "1"; w.Svc.Reaccess("test.x") }})
			}
			return out
		},
	}}
}

// mspecsC09: subscribe / unsubscribe / disconnect from two connections on a
// model and a failing resource, with the two phases of the eviction timer.
func mspecsC09(tier string) []*mc.MSpec {
	sc := &mc.Scenario{
		Name: "M/cache", Init: basicInit,
		Conns:    []mc.ConnSpec{conn(""), conn("")},
		Monitors: allMons(),
		Menu: func(w *mc.World, r *mc.Req) []mc.Outcome {
			if subjectIs(r, "get.test.y") {
				return []mc.Outcome{w.OK(r), mc.Timeout()}
			}
			return nil
		},
	}
	return []*mc.MSpec{{
		Name: "cache", Scenario: sc,
		MaxDepth: map[string]int{"quick": 9, "thorough": 12},
		Alphabet: func(w *mc.World) []mc.MAct {
			var out []mc.MAct
			for i, c := range w.Conns {
				i := i
				if c.Disposed || pendingOn(c) >= 1 {
					continue
				}
				if c.Client.Direct["test.y"] < 1 {
					out = append(out, sendAct(i, "subscribe.test.y", ""))
				} else {
					out = append(out, sendAct(i, "unsubscribe.test.y", ""))
				}
				if i == 0 {
					if c.Client.Direct["test.err"] < 1 {
						out = append(out, sendAct(i, "subscribe.test.err", ""))
					}
					out = append(out, sendAct(i, "call.test.y.set", ""))
				}
				if i == 1 {
					out = append(out, mc.MAct{Name: "c2:disconnect", Do: func(w *mc.World) { w.Disconnect(w.Conns[1]) }})
				}
			}
			return out
		},
	}}
}

// versionFirst: the handshake is the first action of a Mode M connection.
func versionFirst(c *mc.Conn, ci int) []mc.MAct {
	if len(c.Client.Done) == 0 && pendingOn(c) == 0 {
		return []mc.MAct{sendAct(ci, "version", `{"protocol":"1.2.3"}`)}
	}
	return nil
}

// svcAct is a service-side action.
func svcAct(name string, f func(w *mc.World)) mc.MAct { return mc.MAct{Name: "svc:" + name, Do: f} }

// mspecsC02: the reference collector. One connection; a chain a -> b -> c, a
// collection l -> c, and a reference b -> a that closes a cycle; the client
// subscribes and unsubscribes a, b and l in any order while the service
// rewires the references with change/add/remove events, and every get answer
// is an action of its own (so a reference may still be loading when the next
// event or request arrives). The drain probe of every state runs the
// end-of-run oracles (no dangling reference, nothing kept that is not
// reachable, client copy == service state for confirmed subscriptions).
func mspecsC02(tier string) []*mc.MSpec {
	vals := []string{ref("test.c"), ref("test.a"), `0`}
	sc := &mc.Scenario{
		Name: "M/gc", NoEvict: true,
		Init: func(w *mc.World) {
			w.Svc.Model("test.a", "r", ref("test.b"))
			w.Svc.Model("test.b", "r", ref("test.c"))
			w.Svc.Model("test.c", "n", `0`)
			w.Svc.Collection("test.l", ref("test.c"))
			w.Data["b.r"] = "0"
			w.Data["a.r"] = "1"
		},
		Conns:    []mc.ConnSpec{{}},
		Monitors: allMons(),
	}
	return []*mc.MSpec{{
		Name: "gc", Scenario: sc,
		MaxDepth: map[string]int{"quick": 11, "thorough": 13},
		Alphabet: func(w *mc.World) []mc.MAct {
			c := w.Conns[0]
			if v := versionFirst(c, 0); v != nil {
				return v
			}
			var out []mc.MAct
			if pendingOn(c) < 1 {
				for _, rid := range []string{"test.a", "test.b", "test.l"} {
					if c.Client.Direct[rid] < 1 {
						out = append(out, sendAct(0, "subscribe."+rid, ""))
					} else {
						out = append(out, sendAct(0, "unsubscribe."+rid, ""))
					}
				}
			}
			// a.r: reference to b <-> plain value
			if w.Data["a.r"] == "1" {
				out = append(out, svcAct("a.r=0", func(w *mc.World) { w.Data["a.r"] = "0"; w.Svc.Change("test.a", "r", `0`) }))
			} else {
				out = append(out, svcAct("a.r=b", func(w *mc.World) { w.Data["a.r"] = "1"; w.Svc.Change("test.a", "r", ref("test.b")) }))
			}
			// b.r: c, a (cycle) or plain
			cur := 0
			fmt.Sscan(w.Data["b.r"].(string), &cur)
			for i, v := range vals {
				if i == cur {
					continue
				}
				i, v := i, v
				out = append(out, svcAct(fmt.Sprintf("b.r=%d", i), func(w *mc.World) { w.Data["b.r"] = fmt.Sprint(i); w.Svc.Change("test.b", "r", v) }))
			}
			// l: add / remove a reference to c
			n := len(w.Svc.Res["test.l"].C)
			if n < 2 {
				out = append(out, svcAct("l.add", func(w *mc.World) { w.Svc.Add("test.l", 0, ref("test.c")) }))
			}
			if n > 0 {
				out = append(out, svcAct("l.remove", func(w *mc.World) { w.Svc.Remove("test.l", 0) }))
			}
			return out
		},
	}}
}

// counter returns the integer kept under key in w.Data.
func counter(w *mc.World, key string) int {
	n := 0
	if s, ok := w.Data[key].(string); ok {
		fmt.Sscan(s, &n)
	}
	return n
}

func bump(w *mc.World, key string) { w.Data[key] = fmt.Sprint(counter(w, key) + 1) }

// mspecsAccess: one connection with a token on a model x that is also
// referenced by m. The client subscribes / unsubscribes / gets / calls x and
// subscribes m; the service changes the token, sends reaccess events and an
// access reset for x and emits the numbered stream on x; every access request
// is answered with a grant, a denial or a timeout, every answer being an
// action of its own. Judged by the access oracles (C04 read gating, C05 call
// gating and token currency, C06 re-check and no event before the verdict)
// on every transition and in the drain probe of every state.
func mspecsAccess(tier string) []*mc.MSpec { return mspecsAccessDepth(tier, 8) }

// mspecsAccess9 is the same space one level deeper in the quick tier (used by
// C06, whose defect 689149c sat at depth 9).
func mspecsAccess9(tier string) []*mc.MSpec { return mspecsAccessDepth(tier, 9) }

func mspecsAccessDepth(tier string, quickDepth int) []*mc.MSpec {
	sc := &mc.Scenario{
		Name: "M/access", NoEvict: true, Init: basicInit,
		Conns:    []mc.ConnSpec{{}},
		Monitors: allMons(seqMon),
		Menu: func(w *mc.World, r *mc.Req) []mc.Outcome {
			if subjectIs(r, "access.test.x") {
				return []mc.Outcome{w.OK(r), mc.Raw("deny", `{"result":{"get":false,"call":"set"}}`), mc.Timeout()}
			}
			return nil
		},
	}
	return []*mc.MSpec{{
		Name: "access", Scenario: sc,
		MaxDepth: map[string]int{"quick": quickDepth, "thorough": 11},
		Alphabet: func(w *mc.World) []mc.MAct {
			c := w.Conns[0]
			if v := versionFirst(c, 0); v != nil {
				return v
			}
			var out []mc.MAct
			if counter(w, "tok") == 0 {
				// the connection gets its first token before anything else
				return []mc.MAct{svcAct("token=1", func(w *mc.World) { bump(w, "tok"); w.Svc.TokenEvent(0, `{"u":1}`, "") })}
			}
			if pendingOn(c) < 2 {
				if c.Client.Direct["test.x"] < 1 {
					out = append(out, sendAct(0, "subscribe.test.x", ""))
				} else {
					out = append(out, sendAct(0, "unsubscribe.test.x", ""))
				}
				if c.Client.Direct["test.m"] < 1 {
					out = append(out, sendAct(0, "subscribe.test.m", ""))
				}
				out = append(out, sendAct(0, "get.test.x", ""), sendAct(0, "call.test.x.set", `{"n":5}`))
			}
			if n := counter(w, "tok"); n < 3 {
				tok := fmt.Sprintf(`{"u":%d}`, n+1)
				out = append(out, svcAct("token="+fmt.Sprint(n+1), func(w *mc.World) { bump(w, "tok"); w.Svc.TokenEvent(0, tok, "") }))
			}
			if counter(w, "reacc") < 2 {
				out = append(out, svcAct("x.reaccess", func(w *mc.World) { bump(w, "reacc"); w.Svc.Reaccess("test.x") }))
			}
			if counter(w, "reset") < 1 {
				out = append(out, svcAct("reset-access", func(w *mc.World) { bump(w, "reset"); w.Svc.Reset(nil, []string{"test.x"}) }))
			}
			if counter(w, "ev") < 4 {
				out = append(out, svcAct("x+", func(w *mc.World) { bump(w, "ev"); w.Svc.StreamNext("test.x") }))
			}
			return out
		},
	}}
}

// pick keeps the outcomes of a menu whose names are listed.
func pickOutcomes(all []mc.Outcome, names ...string) []mc.Outcome {
	var out []mc.Outcome
	for _, o := range all {
		for _, n := range names {
			if o.Name == n {
				out = append(out, o)
			}
		}
	}
	return out
}

// mspecsC13: query resources. One connection on the query resource test.q
// with the queries a (normalised to n by the service), n and b; the client
// subscribes and unsubscribes them in any order, the service mutates the
// underlying data silently and announces it with a query event (answered per
// query as model, as events, or not at all), and sends ordinary change events
// on the resource without query (which must not touch the query resources). Get answers and query answers are actions.
func mspecsC13(tier string) []*mc.MSpec {
	sc := &mc.Scenario{
		Name: "M/query", NoEvict: true, Init: queryInit(map[string]string{"a": "n"}),
		Conns:    []mc.ConnSpec{{}},
		Monitors: allMons(queryMon),
		Menu: func(w *mc.World, r *mc.Req) []mc.Outcome {
			if all := queryMenu(w, r); all != nil {
				return pickOutcomes(all, "model", "events", "timeout", "noresp")
			}
			return nil
		},
	}
	return []*mc.MSpec{{
		Name: "query", Scenario: sc,
		MaxDepth: map[string]int{"quick": 8, "thorough": 11},
		Alphabet: func(w *mc.World) []mc.MAct {
			c := w.Conns[0]
			if v := versionFirst(c, 0); v != nil {
				return v
			}
			var out []mc.MAct
			if pendingOn(c) < 2 {
				for _, rid := range []string{"test.q?a", "test.q?n", "test.q?b", "test.q"} {
					if c.Client.Direct[rid] < 1 {
						out = append(out, sendAct(0, "subscribe."+rid, ""))
					} else {
						out = append(out, sendAct(0, "unsubscribe."+rid, ""))
					}
				}
			}
			if k := counter(w, "qe"); k < 3 {
				out = append(out, svcAct(fmt.Sprintf("mutate+query%d", k+1), func(w *mc.World) {
					bump(w, "qe")
					v := fmt.Sprint(k + 1)
					w.Svc.Silent("test.q?n", func(r *mc.SvcRes) { r.M["v"] = v })
					w.Svc.Silent("test.q?b", func(r *mc.SvcRes) { r.M["v"] = v })
					w.Svc.QueryEvent("test.q", fmt.Sprintf("_QE_%d", k+1))
				}))
			}
			if k := counter(w, "ev"); k < 2 {
				// an ordinary event on the resource name concerns the resource without query only
				out = append(out, svcAct(fmt.Sprintf("q.w=%d", k+1), func(w *mc.World) { bump(w, "ev"); w.Svc.Change("test.q", "w", fmt.Sprint(k+1)) }))
			}
			return out
		},
	}}
}

// mspecsEvents: event application and system reset on shared resources with
// two connections (one on the latest protocol, one legacy). The clients
// subscribe and unsubscribe a collection c (which references x) and a model m
// (which references x too); outside of reset windows the service emits the
// numbered stream on x, adds to and removes from c and changes m; it mutates
// c and x silently and announces that with a system reset whose re-fetches
// succeed, fail or time out. Judged by the convergence oracle (C01) and the
// stream oracle (C03, relaxed over reset windows) in the drain probe of every
// state, and by the client protocol oracle (C02) on every frame.
func mspecsEvents(tier string) []*mc.MSpec {
	sc := &mc.Scenario{
		Name: "M/events", NoEvict: true, Init: basicInit,
		Conns:    []mc.ConnSpec{{}, {}},
		Monitors: allMons(seqMonRelax),
		Menu: func(w *mc.World, r *mc.Req) []mc.Outcome {
			if isRefetch(w, r) {
				return []mc.Outcome{w.OK(r), mc.ResErr("system.internalError"), mc.Timeout()}
			}
			return nil
		},
	}
	return []*mc.MSpec{{
		Name: "events", Scenario: sc,
		MaxDepth: map[string]int{"quick": 7, "thorough": 10},
		Alphabet: func(w *mc.World) []mc.MAct {
			if v := versionFirst(w.Conns[0], 0); v != nil {
				return v
			}
			var out []mc.MAct
			for i, c := range w.Conns {
				if pendingOn(c) >= 1 {
					continue
				}
				rids := []string{"test.c"}
				if i == 0 {
					rids = append(rids, "test.m")
				}
				for _, rid := range rids {
					if c.Client.Direct[rid] < 1 {
						out = append(out, sendAct(i, "subscribe."+rid, ""))
					} else {
						out = append(out, sendAct(i, "unsubscribe."+rid, ""))
					}
				}
			}
			if noResetWindow(w) {
				if counter(w, "x") < 3 {
					out = append(out, svcAct("x+", func(w *mc.World) { bump(w, "x"); w.Svc.StreamNext("test.x") }))
				}
				if k := counter(w, "add"); k < 2 {
					out = append(out, svcAct("c.add", func(w *mc.World) { bump(w, "add"); w.Svc.Add("test.c", 0, fmt.Sprintf(`"v%d"`, k)) }))
				}
				if counter(w, "rm") < 2 && len(w.Svc.Res["test.c"].C) > 0 {
					out = append(out, svcAct("c.rm", func(w *mc.World) { bump(w, "rm"); w.Svc.Remove("test.c", len(w.Svc.Res["test.c"].C)-1) }))
				}
				if k := counter(w, "m"); k < 2 {
					out = append(out, svcAct("m.a", func(w *mc.World) { bump(w, "m"); w.Svc.Change("test.m", "a", fmt.Sprint(k+2)) }))
				}
				if k := counter(w, "reset"); k < 2 {
					out = append(out, svcAct("silent+reset", func(w *mc.World) {
						bump(w, "reset")
						w.Data["reset"] = true
						w.Svc.Silent("test.c", func(r *mc.SvcRes) {
							// rotate and duplicate: a diff with moves and repeated values
							if len(r.C) > 0 {
								r.C = append(append([]string{}, r.C[1:]...), r.C[0], `"dup"`, `"dup"`)
							} else {
								r.C = []string{`"dup"`}
							}
						})
						w.Svc.Silent("test.x", func(r *mc.SvcRes) { r.M["s"] = fmt.Sprint(k + 1) })
						w.Svc.Reset([]string{"test.c", "test.x"}, nil)
					}))
				}
			}
			return out
		},
	}}
}

// mspecsC10: isolation of token state. Two connections on a shared model;
// the service gives each of them tokens with the token ids a / b / none in any
// order (a connection may move from one id to another, both may share one),
// sends system.tokenReset for a, for b and for both, lets connection 2
// disconnect, and the clients call a method (every request at the messaging
// boundary must carry the caller's own id and current token, and a token reset
// must reach exactly the connections whose current token id is listed).
func mspecsC10(tier string) []*mc.MSpec {
	sc := &mc.Scenario{
		Name: "M/iso", NoEvict: true, Init: basicInit,
		Conns:    []mc.ConnSpec{{}, {}},
		Monitors: allMons(),
	}
	tids := []string{"a", "b", ""}
	return []*mc.MSpec{{
		Name: "iso", Scenario: sc,
		MaxDepth: map[string]int{"quick": 6, "thorough": 8},
		Alphabet: func(w *mc.World) []mc.MAct {
			if v := versionFirst(w.Conns[0], 0); v != nil {
				return v
			}
			var out []mc.MAct
			for i, c := range w.Conns {
				i := i
				if c.Disposed {
					continue
				}
				if pendingOn(c) < 1 {
					if c.Client.Direct["test.m"] < 1 {
						out = append(out, sendAct(i, "subscribe.test.m", ""))
					}
					out = append(out, sendAct(i, "call.test.m.set", `{}`))
				}
				key := fmt.Sprintf("tok%d", i)
				if n := counter(w, key); n < 2 {
					for _, tid := range tids {
						tid := tid
						out = append(out, svcAct(fmt.Sprintf("token-c%d/%s", i+1, tid), func(w *mc.World) {
							bump(w, key)
							w.Svc.TokenEvent(i, fmt.Sprintf(`{"u":%d,"n":%d}`, i+1, n+1), tid)
						}))
					}
				}
			}
			if counter(w, "tr") < 2 {
				// "" in a list is no token id: a connection without one is addressed by no reset
				for _, set := range [][]string{{"a"}, {"b"}, {"a", "b"}, {""}, {"b", ""}} {
					set := set
					out = append(out, svcAct("tokenReset/"+strings.Join(set, "+"), func(w *mc.World) { bump(w, "tr"); w.Svc.TokenReset("auth.test.renew", set...) }))
				}
			}
			if !w.Conns[1].Disposed {
				out = append(out, mc.MAct{Name: "c2:disconnect", Do: func(w *mc.World) { w.Disconnect(w.Conns[1]) }})
			}
			return out
		},
	}}
}
