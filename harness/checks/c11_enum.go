package checks

import (
	"fmt"
	"net/http"
	"strings"
	"time"

	"github.com/gorilla/websocket"
	"github.com/posener/wstest"
	"github.com/resgateio/resgate/server"
	"verif/harness/mc"
	"verif/harness/run"
)

// enumHandshake: a connection object exists from the moment the WebSocket
// handler is entered, before the upgrade has succeeded and, with header
// authentication, before the origin has been judged a second time. Every way
// out of the handshake, and every moment of closing right after it, has to
// leave nothing behind: no entry in the connection table, no conn.<cid>
// subscription, no place in the token-reset fan-out. The product of origin
// verdict x header authentication (none / granted / refused / error / token) x
// what the client does with an accepted connection is enumerated in a free
// running world (the handshake code runs in the HTTP handler's goroutine, not
// in an actor), each case to quiescence.
func enumHandshake(tier string, deadline time.Time) *run.EnumResult {
	res := &run.EnumResult{Exhaustive: true, Rule: "WebSocket handshake exits: allow-list {*, one origin} x Origin {absent, listed, foreign} x wsHeaderAuth {off, success, success+token via conn event, accessDenied, internalError, invalid payload} x client {closes at once, subscribes then closes, closes with the subscribe in flight}; after each: connection table, conn.* subscriptions and token-reset table empty"}
	hauth := "auth.login"
	lists := []string{"*", "http://a.example"}
	origins := []string{"-", "http://a.example", "http://evil.example"}
	auths := []struct{ name, resp string }{
		{"off", ""},
		{"ok", `{"result":null}`},
		{"denied", `{"error":{"code":"system.accessDenied","message":"Access denied"}}`},
		{"error", `{"error":{"code":"system.internalError","message":"Internal error"}}`},
		{"garbage", `{"result":`},
		{"meta-refused", `{"error":{"code":"system.forbidden","message":"no"},"meta":{"status":403}}`},
	}
	clients := []string{"close", "subscribe-close", "subscribe-inflight-close"}
	for _, list := range lists {
		for _, origin := range origins {
			for _, au := range auths {
				for _, cl := range clients {
					if time.Now().After(deadline) {
						res.Exhaustive = false
						return res
					}
					list, au := list, au
					desc := fmt.Sprintf("handshake list=%q origin=%q auth=%s client=%s", list, origin, au.name, cl)
					res.Evaluations++
					res.Distinct++
					hold := cl == "subscribe-inflight-close"
					w := mc.NewFreeWorld(&mc.Scenario{Name: "c11hs", NoEvict: true,
						Cfg: func(c *server.Config) {
							c.AllowOrigin = &list
							if au.name != "off" {
								c.WSHeaderAuth = &hauth
							}
						},
						Init: func(w *mc.World) { w.Svc.Model("test.m", "a", `1`) },
					}, func(w *mc.World, r *mc.Req) mc.Outcome {
						if strings.HasPrefix(r.Subject, "auth.") {
							return mc.Raw("scripted", au.resp)
						}
						if hold && strings.HasPrefix(r.Subject, "get.") {
							return mc.Outcome{Name: "hold"}
						}
						return w.OK(r)
					})
					d := wstest.NewDialer(w.Serv.GetWSHandlerFunc())
					h := http.Header{}
					if origin != "-" {
						h["Origin"] = []string{origin}
					}
					c, _, err := d.Dial("ws://example.org/", h)
					if err == nil && c != nil {
						if cl != "close" {
							c.WriteMessage(websocket.TextMessage, []byte(`{"id":1,"method":"subscribe.test.m"}`))
							if !hold {
								c.SetReadDeadline(time.Now().Add(5 * time.Second))
								c.ReadMessage()
							} else {
								for i := 0; i < 5000 && len(w.MQ.Pending()) == 0; i++ {
									time.Sleep(200 * time.Microsecond)
								}
							}
						}
						c.Close()
					}
					gone := w.WaitNoConns(5 * time.Second)
					var left []string
					for _, s := range w.MQ.ActiveSubs() {
						if strings.HasPrefix(s.Namespace, "conn.") {
							left = append(left, "conn.*")
						}
					}
					if !gone {
						res.Found = append(res.Found, run.EnumFound{Kind: "handshake-connection-kept", Msg: desc + ": a connection is still registered after the handshake ended and the client went away", Input: desc})
					} else if len(left) > 0 {
						res.Found = append(res.Found, run.EnumFound{Kind: "conn-subscription-kept", Msg: desc + ": a conn.<cid> subscription is still active", Input: desc})
					} else if n := len(w.Cache.VerifConns()); n > 0 {
						res.Found = append(res.Found, run.EnumFound{Kind: "tokenreset-table-kept", Msg: fmt.Sprintf("%s: %d connection(s) still registered for token reset fan-out", desc, n), Input: desc})
					}
					w.Close()
					if len(res.Found) >= 6 {
						return res
					}
				}
			}
		}
	}
	return res
}
