package checks

import (
	"encoding/json"
	"fmt"
	"runtime"
	"strings"
	"sync"
	"time"

	"github.com/resgateio/resgate/server/codec"
	"github.com/resgateio/resgate/server/rescache"
	"verif/harness/mc"
	"verif/harness/run"
)

// ---------------------------------------------------------------------------
// reference wildcard matcher (messaging-system semantics)
// ---------------------------------------------------------------------------

// refPatternValid: non-empty dot separated tokens; a token is "*", or ">"
// (last token only), or consists of printable non-space ASCII other than
// '*', '>' and '?'.
func refPatternValid(p string) bool {
	if p == "" {
		return false
	}
	toks := strings.Split(p, ".")
	for i, t := range toks {
		if t == "" {
			return false
		}
		if t == "*" {
			continue
		}
		if t == ">" {
			if i != len(toks)-1 {
				return false
			}
			continue
		}
		for j := 0; j < len(t); j++ {
			c := t[j]
			if c < 33 || c > 126 || c == '*' || c == '>' || c == '?' {
				return false
			}
		}
	}
	return true
}

func refMatch(p, name string) bool {
	if !refPatternValid(p) {
		return false
	}
	pt := strings.Split(p, ".")
	nt := strings.Split(name, ".")
	for i, t := range pt {
		if t == ">" {
			return len(nt) > i
		}
		if i >= len(nt) {
			return false
		}
		if t != "*" && t != nt[i] {
			return false
		}
	}
	return len(pt) == len(nt)
}

// allStrings enumerates every string over alphabet with length 1..max.
func allStrings(alphabet []string, max int, f func(s string)) {
	var rec func(prefix string, n int)
	rec = func(prefix string, n int) {
		if n > 0 {
			f(prefix)
		}
		if n == max {
			return
		}
		for _, a := range alphabet {
			rec(prefix+a, n+1)
		}
	}
	rec("", 0)
}

func validName(s string) bool {
	if s == "" {
		return false
	}
	for _, t := range strings.Split(s, ".") {
		if t == "" {
			return false
		}
	}
	return true
}

func enumMatcher(tier string) *run.EnumResult {
	plen, nlen := 6, 6
	if tier == "thorough" {
		plen, nlen = 7, 7
	}
	var names []string
	allStrings([]string{"a", "b", "."}, nlen, func(s string) {
		if validName(s) {
			names = append(names, s)
		}
	})
	var pats []string
	allStrings([]string{"a", "b", "*", ">", "."}, plen, func(s string) { pats = append(pats, s) })
	// patterns with one odd byte
	var base []string
	allStrings([]string{"a", "*", ">", "."}, 3, func(s string) { base = append(base, s) })
	for _, odd := range []string{" ", "?", "\x7f", "\x80", "\t", "é"} {
		for _, b := range base {
			for i := 0; i <= len(b); i++ {
				pats = append(pats, b[:i]+odd+b[i:])
			}
		}
	}
	res := &run.EnumResult{Exhaustive: true, Rule: fmt.Sprintf("matcher: every pattern over {a,b,*,>,.} up to length %d (plus patterns with one byte of {space,?,0x7f,0x80,tab,é}) x every valid name over {a,b,.} up to length %d, real ParseResourcePattern/Match against a token-wise reference; distinct_nontrivial counts distinct (pattern,name) pairs whose pattern is valid and contains a wildcard", plen, nlen)}
	var mu sync.Mutex
	var wg sync.WaitGroup
	nw := runtime.NumCPU()
	chunk := (len(pats) + nw - 1) / nw
	for k := 0; k < nw; k++ {
		lo, hi := k*chunk, (k+1)*chunk
		if hi > len(pats) {
			hi = len(pats)
		}
		if lo >= hi {
			continue
		}
		wg.Add(1)
		go func(ps []string) {
			defer wg.Done()
			ev, nt := 0, 0
			var found []run.EnumFound
			for _, p := range ps {
				rp := rescache.ParseResourcePattern(p)
				valid := refPatternValid(p)
				if rp.IsValid() != valid {
					found = append(found, run.EnumFound{Kind: "pattern-validity", Msg: fmt.Sprintf("pattern %q: IsValid=%v, reference %v", p, rp.IsValid(), valid), Input: p})
				}
				wild := valid && strings.ContainsAny(p, "*>")
				for _, n := range names {
					ev++
					if wild {
						nt++
					}
					if got, want := safeMatch(rp, n), refMatch(p, n); got == 2 || (got == 1) != want {
						if len(found) < 5 {
							found = append(found, run.EnumFound{Kind: "match-disagreement", Msg: fmt.Sprintf("pattern %q name %q: Match=%s, reference %v", p, n, got2s(got), want), Input: []string{p, n}})
						}
					}
				}
			}
			mu.Lock()
			res.Evaluations += ev
			res.Distinct += nt
			res.Found = append(res.Found, found...)
			mu.Unlock()
		}(pats[lo:hi])
	}
	wg.Wait()
	res.Samples = []interface{}{[]string{"a.*.>", "a.b.a"}, []string{"*.b", "a.b"}, []string{">", "a"}, []string{"a.>.b", "a.a.b"}}
	return res
}

func got2s(b int) string { return map[int]string{0: "false", 1: "true", 2: "panic"}[b] }

func safeMatch(p rescache.ResourcePattern, n string) (r int) {
	defer func() {
		if recover() != nil {
			r = 2
		}
	}()
	if p.Match(n) {
		return 1
	}
	return 0
}


// ---------------------------------------------------------------------------
// collection diff
// ---------------------------------------------------------------------------

func mkVal(s string) codec.Value {
	var v codec.Value
	if err := json.Unmarshal([]byte(s), &v); err != nil {
		panic(err)
	}
	return v
}

func enumLCS(tier string) *run.EnumResult {
	max := 5
	if tier == "thorough" {
		max = 6
	}
	alphabets := [][]string{{`"a"`, `"b"`, `"c"`}, {`1`, `{"rid":"test.x"}`, `{"data":{"k":1}}`}}
	res := &run.EnumResult{Exhaustive: true, Rule: fmt.Sprintf("collection diff: every ordered pair of sequences of length 0..%d over two 3-value alphabets (primitives; primitive/reference/data value) through the real diff routine; the produced remove/add events are applied to the old list and must give the new one with every index in range, removes before adds, none when equal; distinct_nontrivial counts pairs with old != new", max)}
	for ai, al := range alphabets {
		vals := make([]codec.Value, len(al))
		for i, a := range al {
			vals[i] = mkVal(a)
		}
		var seqs [][]int
		var rec func(cur []int)
		rec = func(cur []int) {
			seqs = append(seqs, append([]int(nil), cur...))
			if len(cur) == max {
				return
			}
			for i := range al {
				rec(append(cur, i))
			}
		}
		rec(nil)
		if ai == 1 && tier != "thorough" {
			// second alphabet one element shorter in quick
			var s2 [][]int
			for _, s := range seqs {
				if len(s) < max {
					s2 = append(s2, s)
				}
			}
			seqs = s2
		}
		var mu sync.Mutex
		var wg sync.WaitGroup
		nw := runtime.NumCPU()
		for k := 0; k < nw; k++ {
			wg.Add(1)
			go func(k int) {
				defer wg.Done()
				ev, nt := 0, 0
				var found []run.EnumFound
				for i := k; i < len(seqs); i += nw {
					a := seqs[i]
					av := make([]codec.Value, len(a))
					for x, y := range a {
						av[x] = vals[y]
					}
					for _, b := range seqs {
						bv := make([]codec.Value, len(b))
						for x, y := range b {
							bv[x] = vals[y]
						}
						ev++
						if fmt.Sprint(a) != fmt.Sprint(b) {
							nt++
						}
						if msg := checkLCS(av, bv); msg != "" && len(found) < 5 {
							found = append(found, run.EnumFound{Kind: "diff-wrong", Msg: msg, Input: map[string]interface{}{"old": seqStr(al, a), "new": seqStr(al, b)}})
						}
					}
				}
				mu.Lock()
				res.Evaluations += ev
				res.Distinct += nt
				res.Found = append(res.Found, found...)
				mu.Unlock()
			}(k)
		}
		wg.Wait()
	}
	res.Samples = []interface{}{map[string]string{"old": `["a","b","a"]`, "new": `["b","a","a","c"]`}, map[string]string{"old": `[1,{"rid":"test.x"}]`, "new": `[{"data":{"k":1}},1]`}}
	return res
}

func seqStr(al []string, s []int) string {
	var o []string
	for _, i := range s {
		o = append(o, al[i])
	}
	return "[" + strings.Join(o, ",") + "]"
}

func checkLCS(a, b []codec.Value) (msg string) {
	defer func() {
		if r := recover(); r != nil {
			msg = fmt.Sprintf("panic: %v", r)
		}
	}()
	evs := rescache.VerifLCS(a, b)
	cur := append([]codec.Value(nil), a...)
	sawAdd := false
	for _, e := range evs {
		switch e.Event {
		case "remove":
			if sawAdd {
				return "remove event after an add event"
			}
			var d struct {
				Idx int `json:"idx"`
			}
			json.Unmarshal(e.Payload, &d)
			if d.Idx < 0 || d.Idx >= len(cur) {
				return fmt.Sprintf("remove idx %d out of range 0..%d", d.Idx, len(cur)-1)
			}
			cur = append(cur[:d.Idx:d.Idx], cur[d.Idx+1:]...)
		case "add":
			sawAdd = true
			var d struct {
				Idx   int         `json:"idx"`
				Value codec.Value `json:"value"`
			}
			if err := json.Unmarshal(e.Payload, &d); err != nil {
				return "bad add payload: " + err.Error()
			}
			if d.Idx < 0 || d.Idx > len(cur) {
				return fmt.Sprintf("add idx %d out of range 0..%d", d.Idx, len(cur))
			}
			n := make([]codec.Value, 0, len(cur)+1)
			n = append(n, cur[:d.Idx]...)
			n = append(n, d.Value)
			n = append(n, cur[d.Idx:]...)
			cur = n
		default:
			return "unexpected event " + e.Event
		}
	}
	if len(cur) != len(b) {
		return fmt.Sprintf("result has %d items, expected %d", len(cur), len(b))
	}
	for i := range cur {
		if !cur[i].Equal(b[i]) {
			return fmt.Sprintf("item %d differs after applying the events", i)
		}
	}
	same := len(a) == len(b)
	if same {
		for i := range a {
			if !a[i].Equal(b[i]) {
				same = false
			}
		}
	}
	if same && len(evs) != 0 {
		return "events produced for equal lists"
	}
	return ""
}

// ---------------------------------------------------------------------------
// system level: all model pairs / collection pairs through the real reset path,
// and the matching set for pattern lists
// ---------------------------------------------------------------------------

func resetPairScenario(name string, oldM, newM map[string]string, oldC, newC []string, notFound bool, proto string) *mc.Scenario {
	return &mc.Scenario{
		Name: name, NoEvict: true,
		Init: func(w *mc.World) {
			basicInit(w)
			if oldM != nil {
				r := w.Svc.Model("test.r")
				for k, v := range oldM {
					r.M[k] = v
				}
			} else {
				w.Svc.Collection("test.r", oldC...)
			}
		},
		Monitors: allMons(),
		Conns:    []mc.ConnSpec{conn(proto, req("subscribe.test.r", 0))},
		Threads: []mc.Thread{{Name: "svc", Ops: []mc.Op{
			op("mutate+reset", 1, func(w *mc.World) {
				w.Svc.Silent("test.r", func(r *mc.SvcRes) {
					if notFound {
						r.Gone = true
						return
					}
					if newM != nil {
						r.M = map[string]string{}
						for k, v := range newM {
							r.M[k] = v
						}
					} else {
						r.C = append([]string(nil), newC...)
					}
				})
				w.Svc.Reset([]string{"test.r"}, nil)
			}),
		}}},
	}
}

// enumResetPairs runs inside a worker process.
func enumResetPairs(tier string, part, parts, skip int, deadline time.Time, note func(int, string)) *run.EnumResult {
	res := &run.EnumResult{Exhaustive: true, Rule: "reset path: every pair of old/new models over 3 keys x {absent,1,2,ref} and every pair of collections of length <=3 over {1,2,ref} (thorough: plus protocol 1.2.0), each through subscribe, silent mutation, system.reset and re-fetch on the real Service; oracle: client copy and cache equal the new state, no frame when equal; plus the matching-set cases (pattern lists x cached names); distinct_nontrivial counts cases with old != new"}
	vals := []string{"", `1`, `2`, ref("test.x")}
	idx := -1
	runCase := func(desc string, sc *mc.Scenario, nontrivial bool, check func(x *mc.Exec) string) {
		idx++
		if idx%parts != part || idx < skip {
			return
		}
		if time.Now().After(deadline) {
			res.Exhaustive = false
			return
		}
		note(idx, desc)
		x := mc.RunOnce(sc, nil, mc.RunOpts{KeepTrace: check != nil})
		res.Evaluations++
		if nontrivial {
			res.Distinct++
		}
		for _, v := range x.Viol {
			if v.Prop == "C01" || v.Prop == "C02" || v.Prop == "C12" || v.Prop == "*" {
				if len(res.Found) < 5 {
					res.Found = append(res.Found, run.EnumFound{Kind: "reset-" + v.Kind, Msg: v.Msg, Input: desc})
				}
			}
		}
		if check != nil {
			if msg := check(x); msg != "" && len(res.Found) < 5 {
				res.Found = append(res.Found, run.EnumFound{Kind: "reset-oracle", Msg: msg, Input: desc})
			}
		}
		if len(res.Samples) < 2 && nontrivial {
			res.Samples = append(res.Samples, desc)
		}
	}
	protos := []string{latest}
	if tier == "thorough" {
		protos = append(protos, "1.2.0")
	}
	for _, proto := range protos {
		// models
		for a := 0; a < 64; a++ {
			for b := 0; b < 64; b++ {
				om, nm := map[string]string{}, map[string]string{}
				for k, key := range []string{"x", "y", "z"} {
					if v := vals[(a>>(2*k))&3]; v != "" {
						om[key] = v
					}
					if v := vals[(b>>(2*k))&3]; v != "" {
						nm[key] = v
					}
				}
				same := a == b
				desc := fmt.Sprintf("model %v -> %v proto=%s", om, nm, proto)
				runCase(desc, resetPairScenario("reset/model-pair", om, nm, nil, nil, false, proto), !same, func(x *mc.Exec) string {
					n := 0
					for _, f := range x.Frames["c1"] {
						if strings.Contains(f, `"event":"test.r.`) {
							n++
						}
					}
					if same && n != 0 {
						return fmt.Sprintf("%d event frame(s) although the content is unchanged", n)
					}
					if !same && n != 1 {
						return fmt.Sprintf("%d event frames for a model reset, expected exactly one change event", n)
					}
					return ""
				})
			}
		}
		// collections
		cv := []string{`1`, `2`, ref("test.x")}
		var seqs [][]string
		var rec func(cur []string)
		rec = func(cur []string) {
			seqs = append(seqs, append([]string(nil), cur...))
			if len(cur) == 3 {
				return
			}
			for _, v := range cv {
				rec(append(cur, v))
			}
		}
		rec(nil)
		for _, a := range seqs {
			for _, b := range seqs {
				same := fmt.Sprint(a) == fmt.Sprint(b)
				runCase(fmt.Sprintf("collection %v -> %v proto=%s", a, b, proto), resetPairScenario("reset/collection-pair", nil, nil, a, b, false, proto), !same, func(x *mc.Exec) string {
					n := 0
					for _, f := range x.Frames["c1"] {
						if strings.Contains(f, `"event":"test.r.`) {
							n++
						}
					}
					if same && n != 0 {
						return fmt.Sprintf("%d event frame(s) although the content is unchanged", n)
					}
					return ""
				})
			}
		}
	}
	// notFound on re-fetch gives a delete event
	runCase("model notFound", resetPairScenario("reset/notfound", map[string]string{"x": `1`}, nil, nil, nil, true, latest), true, func(x *mc.Exec) string {
		for _, f := range x.Frames["c1"] {
			if strings.Contains(f, `"event":"test.r.delete"`) {
				return ""
			}
		}
		return "system.notFound on re-fetch did not produce a delete event"
	})
	// matching set
	catalogue := []string{"test.>", "test.*", "test.a.*", "test.a.>", "*.a.b", "test.a.b", ">", "*", "test.*.b", "test.a", "test..a", "test.>.b", "other.>"}
	names := []string{"test.a", "test.a.b", "test.c.b", "test.q"}
	var lists [][]string
	for _, p := range catalogue {
		lists = append(lists, []string{p})
	}
	for _, p := range catalogue {
		for _, q := range catalogue {
			lists = append(lists, []string{p, q})
		}
	}
	for _, useAccess := range []bool{false, true} {
		for _, l := range lists {
			l, useAccess := l, useAccess
			sc := &mc.Scenario{
				Name: "reset/matching", NoEvict: true, Monitors: allMons(queryMon),
				Init: func(w *mc.World) {
					queryInit(map[string]string{"a": "n"})(w)
					for _, n := range names[:3] {
						w.Svc.Model(n, "n", `0`)
					}
					w.Svc.Model("test.idle", "n", `0`)
				},
				Conns: []mc.ConnSpec{
					conn(latest, req("subscribe.test.a", 0), req("subscribe.test.a.b", 0), req("subscribe.test.q?a", 0), req("subscribe.test.q?c", 0)),
					conn(latest, req("subscribe.test.c.b", 0), req("subscribe.test.a", 0), req("subscribe.test.q?n", 0)),
					// test.idle stays cached without any subscriber (eviction delay not over)
					conn(latest, req("subscribe.test.idle", 0), req("unsubscribe.test.idle", 0)),
				},
				Threads: []mc.Thread{{Name: "svc", Ops: []mc.Op{{Name: "reset", Phase: 1, When: clientsDone, Do: func(w *mc.World) {
					w.Data["resetAt"] = w.Time() + 1
					if useAccess {
						w.Svc.Reset(nil, l)
					} else {
						w.Svc.Reset(l, nil)
					}
				}}}}},
			}
			runCase(fmt.Sprintf("patterns %q access=%v", l, useAccess), sc, true, func(x *mc.Exec) string {
				// expected
				want := map[string]int{}
				resetT := 0
				for _, r := range x.MQLog {
					if r.Kind == "EVT" && r.Subject == "system.reset" {
						resetT = r.Time
					}
				}
				match := func(n string) bool {
					for _, p := range l {
						if refMatch(p, n) {
							return true
						}
					}
					return false
				}
				if !useAccess {
					for _, n := range names[:3] {
						if match(n) {
							want["get."+n+" {}"]++
						}
					}
					if match("test.idle") {
						want["get.test.idle {}"]++
					}
					if match("test.q") {
						want[`get.test.q {"query":"n"}`]++
						want[`get.test.q {"query":"c"}`]++
					}
				} else {
					type sub struct{ c, n, q string }
					for _, s := range []sub{{"c1", "test.a", ""}, {"c1", "test.a.b", ""}, {"c1", "test.q", "a"}, {"c1", "test.q", "c"}, {"c2", "test.c.b", ""}, {"c2", "test.a", ""}, {"c2", "test.q", "n"}} {
						if match(s.n) {
							p := fmt.Sprintf(`{"token":null,"cid":"<%s>"}`, s.c)
							if s.q != "" {
								p = fmt.Sprintf(`{"token":null,"query":%q,"cid":"<%s>"}`, s.q, s.c)
							}
							want["access."+s.n+" "+p]++
						}
					}
				}
				got := map[string]int{}
				for _, r := range x.MQLog {
					if r.Kind == "REQ" && r.Time >= resetT && resetT > 0 {
						got[r.Subject+" "+r.Payload]++
					}
				}
				for k, n := range want {
					// access re-checks: set equality (a name matched by two listed
					// patterns is re-checked once per pattern; the statement asks
					// for the set of subscriptions, not for a multiplicity)
					if got[k] != n && !(useAccess && got[k] >= 1) {
						return fmt.Sprintf("after the reset %d request(s) %s were published, expected %d", got[k], k, n)
					}
				}
				for k, n := range got {
					if want[k] != n && !(useAccess && want[k] >= 1) {
						return fmt.Sprintf("after the reset %d request(s) %s were published, expected %d", n, k, want[k])
					}
				}
				return ""
			})
		}
	}
	return res
}

func init() {
	register(&run.Check{
		Prop:  "C12",
		Level: "model_checking",
		Scenarios: func(tier string) []*mc.Scenario {
			return scenariosFor("C12", tier)
		},
		Bound: map[string]int{"quick": 2, "thorough": 3},
		Enum: func(tier string, deadline time.Time) *run.EnumResult {
			a := enumMatcher(tier)
			b := enumLCS(tier)
			a.Evaluations += b.Evaluations
			a.Distinct += b.Distinct
			a.Rule += " | " + b.Rule
			a.Found = append(a.Found, b.Found...)
			a.Samples = append(a.Samples, b.Samples...)
			a.Exhaustive = a.Exhaustive && b.Exhaustive
			return a
		},
		Also:        []string{"C01", "C02", "C03"},
		MSpecs:      mspecsEvents, // silent mutations announced by resets whose re-fetches succeed, fail or time out
		EnumPar:     enumResetPairs,
		EnumParts:   map[string]int{"quick": 48, "thorough": 96},
		Assumptions: append([]string{"reference matcher implements the wildcard semantics of the statement token-wise"}, e1Assumptions...),
	})
}
