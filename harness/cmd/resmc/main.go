// resmc is the model-checking harness for resgate.
//
//	resmc check <property> <quick|thorough>
//	resmc replay <file>
//	resmc worker                (internal)
//	resmc list
package main

import (
	"fmt"
	"os"

	_ "verif/harness/checks"
	"verif/harness/run"
)

func main() {
	if len(os.Args) < 2 {
		fmt.Fprintln(os.Stderr, "usage: resmc check <property> <tier> | replay <file> | list")
		os.Exit(2)
	}
	if r := os.Getenv("VERIF_ROOT"); r != "" {
		run.Root = r
	}
	switch os.Args[1] {
	case "worker":
		run.Worker()
	case "check":
		tier := "quick"
		if len(os.Args) > 3 {
			tier = os.Args[3]
		}
		if t := os.Getenv("VERIF_TIER"); t != "" && len(os.Args) <= 3 {
			tier = t
		}
		os.Exit(run.RunCheck(os.Args[2], tier))
	case "replay":
		os.Exit(run.Replay(os.Args[2]))
	case "enumpart":
		// resmc enumpart <prop> <tier> <part> <parts>   (debugging aid)
		var part, parts int
		fmt.Sscan(os.Args[4], &part)
		fmt.Sscan(os.Args[5], &parts)
		run.EnumPartDebug(os.Args[2], os.Args[3], part, parts)
	case "racepass":
		lim := 20
		if len(os.Args) > 3 {
			fmt.Sscan(os.Args[3], &lim)
		}
		run.RacePass(os.Args[2], lim)
	case "list":
		run.List()
	default:
		fmt.Fprintln(os.Stderr, "unknown command")
		os.Exit(2)
	}
}
