// Package run orchestrates checks: it shards schedule searches over worker
// processes, attributes crashes, applies the known-findings file, and writes
// the evidence and replay files.
package run

import (
	"bufio"
	"crypto/sha256"
	"encoding/hex"
	"encoding/json"
	"fmt"
	"os"
	"os/exec"
	"path/filepath"
	"regexp"
	"runtime"
	"sort"
	"strings"
	"sync"
	"time"

	"verif/harness/mc"
)

// Root is the /verif directory.
var Root = "/verif"

// EnumResult is what an input-enumeration check (E2) reports.
type EnumResult struct {
	Evaluations int
	Distinct    int // distinct non-trivial cases by Rule
	Rule        string
	Samples     []interface{}
	Exhaustive  bool
	Found       []EnumFound
	Extra       map[string]interface{}
}

// EnumFound is a violating input.
type EnumFound struct {
	Kind  string
	Msg   string
	Input interface{}
}

// Check is the definition of one property check.
type Check struct {
	Prop      string
	Level     string // evidence level
	Scenarios func(tier string) []*mc.Scenario
	Enum      func(tier string, deadline time.Time) *EnumResult
	// EnumPar is an input enumeration split into parts that run in worker
	// processes (crash isolation). note must be called with the index and a
	// description of each case before it is executed; cases with index < skip
	// are not executed (resume after a crash).
	EnumPar   func(tier string, part, parts, skip int, deadline time.Time, note func(idx int, desc string)) *EnumResult
	EnumParts map[string]int
	// MSpecs are Mode M (explicit-state BFS) explorations.
	MSpecs func(tier string) []*mc.MSpec
	// Also lists properties whose violations, when they occur in this
	// check's own scenarios, are violations of this property too.
	Also []string
	// Bounds per tier for Mode S, applied to scenarios that do not set their own.
	Bound       map[string]int
	Budget      map[string]time.Duration
	Assumptions []string
	Rule        string
}

// WorkItem is sent to a worker process.
type WorkItem struct {
	Prop     string   `json:"prop"`
	Tier     string   `json:"tier"`
	Scenario string   `json:"scenario"`
	Prefix   []string `json:"prefix"`
	Devs     int      `json:"devs"`
	Bound    int      `json:"bound"`
	Budget   int      `json:"budget"`
	Enum     bool     `json:"enum,omitempty"`
	Part     int      `json:"part,omitempty"`
	Parts    int      `json:"parts,omitempty"`
	Skip     int      `json:"skip,omitempty"`
	Deadline int64    `json:"deadline,omitempty"`
	MSpec    string   `json:"mspec,omitempty"`
	MPath    []string `json:"mpath,omitempty"`
}

// WorkResult is a worker's answer.
type WorkResult struct {
	MKey    string      `json:"mkey,omitempty"`
	MSucc   []mc.MSucc  `json:"msucc,omitempty"`
	MOK     bool        `json:"mok,omitempty"`
	MExecs  int         `json:"mexecs,omitempty"`
	Stats   *mc.Stats   `json:"stats"`
	Enum    *EnumResult `json:"enum,omitempty"`
	Tainted bool        `json:"tainted,omitempty"`
}

// Registry of checks, filled by package checks.
var Registry = map[string]*Check{}

func scenarioByName(c *Check, tier, name string) *mc.Scenario {
	for _, s := range c.Scenarios(tier) {
		if s.Name == name {
			return s
		}
	}
	return nil
}

// Worker is the loop of a worker process.
func Worker() {
	in := bufio.NewReaderSize(os.Stdin, 1<<20)
	out := bufio.NewWriter(os.Stdout)
	cur, _ := os.OpenFile(filepath.Join(Root, ".work", fmt.Sprintf("cur-%d", os.Getpid())), os.O_CREATE|os.O_RDWR|os.O_TRUNC, 0644)
	for {
		line, err := in.ReadBytes('\n')
		if err != nil {
			return
		}
		var it WorkItem
		if json.Unmarshal(line, &it) != nil {
			return
		}
		c := Registry[it.Prop]
		filter := func(v *mc.Violation) bool {
			if v.Prop == it.Prop || v.Prop == "*" {
				return true
			}
			for _, a := range c.Also {
				if v.Prop == a {
					v.Kind = v.Prop + ":" + v.Kind
					v.Prop = it.Prop
					return true
				}
			}
			return false
		}
		if it.MSpec != "" {
			var spec *mc.MSpec
			for _, m := range c.MSpecs(it.Tier) {
				if m.Name == it.MSpec {
					spec = m
				}
			}
			b := []byte(fmt.Sprintf("M:%s\n%s\n", it.MSpec, strings.Join(it.MPath, "\n")))
			cur.Truncate(0)
			cur.WriteAt(b, 0)
			succ, key, ok, execs := spec.Expand(it.MPath, filter)
			rb, _ := json.Marshal(WorkResult{MKey: key, MSucc: succ, MOK: ok, MExecs: execs, Tainted: mc.Tainted})
			out.Write(rb)
			out.WriteByte('\n')
			out.Flush()
			continue
		}
		if it.Enum {
			r := c.EnumPar(it.Tier, it.Part, it.Parts, it.Skip, time.Unix(it.Deadline, 0), func(idx int, desc string) {
				b := []byte(fmt.Sprintf("%d\n%s\n", idx, desc))
				cur.Truncate(0)
				cur.WriteAt(b, 0)
			})
			b, _ := json.Marshal(WorkResult{Enum: r, Tainted: mc.Tainted})
			out.Write(b)
			out.WriteByte('\n')
			out.Flush()
			continue
		}
		sc := scenarioByName(c, it.Tier, it.Scenario)
		st := mc.NewStats()
		e := &mc.Explorer{Sc: sc, Bound: it.Bound, Stats: st, CurFile: cur, Budget: it.Budget, ReplayMod: 64,
			Filter: func(v *mc.Violation) bool {
				if v.Prop == it.Prop || v.Prop == "*" {
					return true
				}
				for _, a := range c.Also {
					if v.Prop == a {
						v.Kind = v.Prop + ":" + v.Kind
						v.Prop = it.Prop
						return true
					}
				}
				return false
			}}
		e.Explore(it.Prefix, it.Devs)
		b, _ := json.Marshal(WorkResult{Stats: st, Tainted: mc.Tainted})
		out.Write(b)
		out.WriteByte('\n')
		out.Flush()
	}
}

type worker struct {
	cmd *exec.Cmd
	in  *bufio.Writer
	out *bufio.Reader
	pid int

	errPath string
}

func startWorker() (*worker, error) {
	exe, _ := os.Executable()
	cmd := exec.Command(exe, "worker")
	cmd.Env = append(os.Environ(), "GOMAXPROCS=2")
	stdin, _ := cmd.StdinPipe()
	stdout, _ := cmd.StdoutPipe()
	cmd.Stderr = nil
	errf, _ := os.CreateTemp(filepath.Join(Root, ".work"), "stderr-*")
	cmd.Stderr = errf
	if err := cmd.Start(); err != nil {
		return nil, err
	}
	w := &worker{cmd: cmd, in: bufio.NewWriter(stdin), out: bufio.NewReaderSize(stdout, 1<<20), pid: cmd.Process.Pid}
	w.errPath = errf.Name()
	errf.Close()
	return w, nil
}

func (w *worker) stop() {
	w.cmd.Process.Kill()
	w.cmd.Wait()
	os.Remove(w.errPath)
	os.Remove(filepath.Join(Root, ".work", fmt.Sprintf("cur-%d", w.pid)))
}

// Finding is a violation ready to be reported.
type Finding struct {
	Prop     string      `json:"property"`
	Kind     string      `json:"kind"`
	Msg      string      `json:"message"`
	Scenario string      `json:"scenario,omitempty"`
	Tier     string      `json:"tier,omitempty"`
	Devs     int         `json:"deviations"`
	Schedule []string    `json:"schedule,omitempty"`
	Input    interface{} `json:"input,omitempty"`
	Replay   string      `json:"-"`
}

// Known is one entry of known_findings.json.
type Known struct {
	Status   string `json:"status"` // "open" or "fixed"
	Property string `json:"property"`
	Kind     string `json:"kind"`     // regexp on Finding.Kind
	Scenario string `json:"scenario"` // regexp on scenario name ("" = any)
	Match    string `json:"match"`    // regexp on message ("" = any)
	What     string `json:"what"`
	Commit   string `json:"commit,omitempty"`
}

func loadKnown() []Known {
	var k []Known
	b, err := os.ReadFile(filepath.Join(Root, "known_findings.json"))
	if err == nil {
		json.Unmarshal(b, &k)
	}
	return k
}

func (k *Known) matches(f *Finding) bool {
	if k.Status != "open" || k.Property != f.Prop {
		return false
	}
	ok := func(pat, s string) bool {
		if pat == "" {
			return true
		}
		m, err := regexp.MatchString(pat, s)
		return err == nil && m
	}
	return ok(k.Kind, f.Kind) && ok(k.Scenario, f.Scenario) && ok(k.Match, f.Msg)
}

// Evidence mirrors EVIDENCE.schema.json.
type Evidence struct {
	PropertyID  string                 `json:"property_id"`
	Tier        string                 `json:"tier"`
	Seed        int                    `json:"seed"`
	Level       string                 `json:"level"`
	Coverage    map[string]interface{} `json:"coverage"`
	Assumptions []string               `json:"assumptions"`
	WallS       float64                `json:"wall_s"`
	Violations  int                    `json:"violations"`
}

type scenarioReport struct {
	Name           string `json:"name"`
	Bound          int    `json:"bound_completed"`
	Unbounded      bool   `json:"unbounded,omitempty"`
	Executions     int    `json:"executions"`
	Points         int    `json:"choice_points"`
	Digests        int    `json:"distinct_outcomes"`
	MaxLen         int    `json:"longest_schedule"`
	Complete       bool   `json:"complete"`
	Diverged       int    `json:"replay_divergences"`
	DefaultActions int    `json:"default_schedule_actions"`
	Why            []string `json:"incomplete_because,omitempty"`
}

// RunCheck runs a property check and returns the process exit code.
func RunCheck(prop, tier string) int {
	c := Registry[prop]
	if c == nil {
		fmt.Fprintf(os.Stderr, "unknown property %s\n", prop)
		return 2
	}
	os.MkdirAll(filepath.Join(Root, ".work"), 0755)
	os.MkdirAll(filepath.Join(Root, "evidence"), 0755)
	os.MkdirAll(filepath.Join(Root, "replays"), 0755)
	t0 := time.Now()
	budget := c.Budget[tier]
	if budget == 0 {
		budget = 150 * time.Second
		if tier == "thorough" {
			budget = 20 * time.Minute
		}
	}
	deadline := t0.Add(budget)
	seed := 0
	fmt.Sscanf(os.Getenv("VERIF_SEED"), "%d", &seed)

	var findings []Finding
	cov := map[string]interface{}{}
	total := mc.NewStats()
	exhaustive := true

	if c.Scenarios != nil {
		scs := c.Scenarios(tier)
		reports, f := runScenarios(c, tier, scs, deadline, total)
		findings = append(findings, f...)
		for _, r := range reports {
			if !r.Complete {
				exhaustive = false
			}
		}
		cov["scenarios"] = reports
		cov["states"] = total.Points
		cov["transitions"] = total.Transitions
		cov["traces_validated_against_impl"] = total.Transitions
		cov["evaluations"] = total.Executions
		cov["gated_closures_executed"] = total.Closures
		cov["distinct_nontrivial"] = len(total.Digests)
		cov["replay_checks"] = total.ReplayChecks
		cov["replay_divergences"] = total.ReplayDiffs + total.Diverged
		var samples []interface{}
		for _, s := range total.Samples {
			samples = append(samples, s)
		}
		cov["samples"] = samples
		cov["rule"] = "Mode S: deviation-bounded depth-first enumeration of named schedules over the real Service (states = choice points of the schedule tree, transitions = actions executed beyond replayed prefixes; every transition runs real gateway code, so all are validated against the implementation by construction). distinct_nontrivial = number of distinct canonical observation digests (client frames + messaging traffic) over all executions."
	}
	if c.Enum != nil {
		r := c.Enum(tier, deadline)
		mergeEnum(cov, r, c, prop, tier, &findings, &exhaustive)
	}
	if c.MSpecs != nil {
		// Mode M has a budget of its own, so that it is not starved by the
		// schedule enumeration before it
		mdl := time.Now().Add(90 * time.Second)
		if tier == "thorough" {
			mdl = time.Now().Add(12 * time.Minute)
		}
		if mdl.Before(deadline) {
			mdl = deadline
		}
		for _, spec := range c.MSpecs(tier) {
			rep, f := runMSpec(c, tier, spec, mdl)
			findings = append(findings, f...)
			if !rep.Complete {
				exhaustive = false
			}
			ms, _ := cov["mode_m"].([]mReport)
			cov["mode_m"] = append(ms, rep)
			st, _ := cov["states"].(int)
			cov["states"] = st + rep.States
			tr, _ := cov["transitions"].(int)
			cov["transitions"] = tr + rep.Transitions
			tv, _ := cov["traces_validated_against_impl"].(int)
			cov["traces_validated_against_impl"] = tv + rep.Transitions
			ev, _ := cov["evaluations"].(int)
			cov["evaluations"] = ev + rep.Executions
			if rule, ok := cov["rule"].(string); ok && !strings.Contains(rule, "Mode M") {
				cov["rule"] = rule + " | Mode M: breadth-first explicit-state search; a transition is one environment action (client request, answer with each outcome, event, timer phase, disconnect) followed by a run to internal quiescence on the real Service; states are canonical snapshots (gateway + pending requests + peer models), successors are built by replaying the shortest path on a fresh gateway; every successor gets a drain probe with the end-of-run oracles"
			}
			if len(rep.Sample) > 0 {
				var samples []interface{}
				if s, ok := cov["samples"].([]interface{}); ok {
					samples = s
				}
				cov["samples"] = append(samples, rep.Sample)
			}
		}
	}
	if c.EnumPar != nil {
		r := runEnumPar(c, tier, deadline)
		mergeEnum(cov, r, c, prop, tier, &findings, &exhaustive)
	}
	cov["exhaustive"] = exhaustive

	// classify against known findings; dedupe by signature
	known := loadKnown()
	exit := 0
	seen := map[string]bool{}
	nviol := 0
	sort.SliceStable(findings, func(i, j int) bool { return findings[i].Devs < findings[j].Devs })
	var knownLines []string
	for i := range findings {
		f := &findings[i]
		sig := f.Prop + "|" + f.Kind + "|" + f.Scenario
		if seen[sig] {
			continue
		}
		seen[sig] = true
		isKnown := false
		for _, k := range known {
			if k.matches(f) {
				writeReplay(f) // kept for bin/check --replay and for pinning under replays/known
				knownLines = append(knownLines, fmt.Sprintf("KNOWN-FINDING: property=%s %s [%s in %s]", prop, k.What, f.Kind, f.Scenario))
				isKnown = true
				break
			}
		}
		if isKnown {
			continue
		}
		nviol++
		path := writeReplay(f)
		fmt.Printf("VIOLATION property=%s replay=%s\n", prop, path)
		fmt.Printf("  kind=%s scenario=%s deviations=%d\n  %s\n", f.Kind, f.Scenario, f.Devs, f.Msg)
		exit = 1
	}
	sort.Strings(knownLines)
	prev := ""
	for _, l := range knownLines {
		if l != prev {
			fmt.Println(l)
		}
		prev = l
	}
	cov["known_findings_reported"] = len(knownLines)

	ev := Evidence{PropertyID: prop, Tier: tier, Seed: seed, Level: c.Level, Coverage: cov,
		Assumptions: c.Assumptions, WallS: time.Since(t0).Seconds(), Violations: nviol}
	if ev.Assumptions == nil {
		ev.Assumptions = []string{}
	}
	b, _ := json.MarshalIndent(ev, "", " ")
	os.WriteFile(filepath.Join(Root, "evidence", prop+".json"), append(b, '\n'), 0644)
	fmt.Printf("%s %s: evaluations=%v states=%v distinct=%v exhaustive=%v violations=%d known=%d wall=%.1fs\n",
		prop, tier, cov["evaluations"], cov["states"], cov["distinct_nontrivial"], exhaustive, nviol, len(knownLines), ev.WallS)
	return exit
}

func mergeEnum(cov map[string]interface{}, r *EnumResult, c *Check, prop, tier string, findings *[]Finding, exhaustive *bool) {
	if !r.Exhaustive {
		*exhaustive = false
	}
	for _, f := range r.Found {
		*findings = append(*findings, Finding{Prop: prop, Kind: f.Kind, Msg: f.Msg, Input: f.Input, Tier: tier})
	}
	ev, _ := cov["evaluations"].(int)
	cov["evaluations"] = ev + r.Evaluations
	dn, _ := cov["distinct_nontrivial"].(int)
	cov["distinct_nontrivial"] = dn + r.Distinct
	if rule, ok := cov["rule"].(string); ok {
		if !strings.Contains(rule, r.Rule) {
			cov["rule"] = rule + " | " + r.Rule
		}
	} else {
		cov["rule"] = r.Rule
	}
	var samples []interface{}
	if s, ok := cov["samples"].([]interface{}); ok {
		samples = s
	}
	if len(samples) < 12 {
		samples = append(samples, r.Samples...)
	}
	cov["samples"] = samples
	for k, v := range r.Extra {
		cov[k] = v
	}
	if c.Level == "model_checking" {
		st, _ := cov["states"].(int)
		cov["states"] = st + r.Evaluations
		tr, _ := cov["transitions"].(int)
		cov["transitions"] = tr + r.Evaluations
		tv, _ := cov["traces_validated_against_impl"].(int)
		cov["traces_validated_against_impl"] = tv + r.Evaluations
	}
}

// runEnumPar runs the parts of an input enumeration in worker processes.
func runEnumPar(c *Check, tier string, deadline time.Time) *EnumResult {
	parts := c.EnumParts[tier]
	if parts == 0 {
		parts = 32
	}
	nw := runtime.NumCPU()
	if nw > 16 {
		nw = 16
	}
	total := &EnumResult{Exhaustive: true, Extra: map[string]interface{}{}}
	var mu sync.Mutex
	ch := make(chan int, parts)
	for i := 0; i < parts; i++ {
		ch <- i
	}
	close(ch)
	var wg sync.WaitGroup
	for k := 0; k < nw; k++ {
		wg.Add(1)
		go func() {
			defer wg.Done()
			var w *worker
			defer func() {
				if w != nil {
					w.stop()
				}
			}()
			for part := range ch {
				skip := 0
				for {
					if w == nil {
						var err error
						if w, err = startWorker(); err != nil {
							panic(err)
						}
					}
					b, _ := json.Marshal(WorkItem{Prop: c.Prop, Tier: tier, Enum: true, Part: part, Parts: parts, Skip: skip, Deadline: deadline.Unix()})
					w.in.Write(b)
					w.in.WriteByte('\n')
					w.in.Flush()
					line, err := w.out.ReadBytes('\n')
					if err != nil {
						// crash: attribute to the noted case and resume after it
						w.cmd.Wait()
						cb, _ := os.ReadFile(filepath.Join(Root, ".work", fmt.Sprintf("cur-%d", w.pid)))
						lines := strings.SplitN(strings.TrimRight(string(cb), "\n"), "\n", 2)
						idx := -1
						desc := ""
						if len(lines) == 2 {
							fmt.Sscanf(lines[0], "%d", &idx)
							desc = lines[1]
						}
						eb, _ := os.ReadFile(w.errPath)
						msg := string(eb)
						if i := strings.Index(msg, "\n\ngoroutine"); i > 0 {
							msg = msg[:i]
						}
						if len(msg) > 400 {
							msg = msg[:400]
						}
						mu.Lock()
						total.Found = append(total.Found, EnumFound{Kind: "crash:" + crashClass(string(eb)), Msg: "gateway process terminated: " + strings.TrimSpace(msg), Input: desc})
						mu.Unlock()
						w.stop()
						w = nil
						if idx < 0 {
							mu.Lock()
							total.Exhaustive = false
							mu.Unlock()
							break
						}
						skip = idx + 1
						continue
					}
					var r WorkResult
					json.Unmarshal(line, &r)
					if r.Tainted {
						w.stop()
						w = nil
					}
					mu.Lock()
					if r.Enum != nil {
						total.Evaluations += r.Enum.Evaluations
						total.Distinct += r.Enum.Distinct
						total.Rule = r.Enum.Rule
						if len(total.Samples) < 6 {
							total.Samples = append(total.Samples, r.Enum.Samples...)
						}
						if !r.Enum.Exhaustive {
							total.Exhaustive = false
						}
						total.Found = append(total.Found, r.Enum.Found...)
						for k, v := range r.Enum.Extra {
							if f, ok := v.(float64); ok {
								if o, ok := total.Extra[k].(float64); ok {
									total.Extra[k] = o + f
								} else {
									total.Extra[k] = f
								}
							} else {
								total.Extra[k] = v
							}
						}
					}
					mu.Unlock()
					break
				}
			}
		}()
	}
	wg.Wait()
	return total
}

type mReport struct {
	Name        string   `json:"name"`
	Depth       int      `json:"depth_completed"`
	States      int      `json:"states"`
	Transitions int      `json:"transitions"`
	Executions  int      `json:"executions"`
	Final       int      `json:"final_states"`
	Complete    bool     `json:"complete"`
	Fixpoint    bool     `json:"fixpoint"`
	Sample      []string `json:"sample_path,omitempty"`
}

// runMSpec is the Mode M search: breadth-first by depth over canonical states.
func runMSpec(c *Check, tier string, spec *mc.MSpec, deadline time.Time) (mReport, []Finding) {
	rep := mReport{Name: spec.Name, Complete: true}
	maxDepth := spec.MaxDepth[tier]
	if maxDepth == 0 {
		maxDepth = 5
	}
	if v := os.Getenv("VERIF_MDEPTH"); v != "" { // experiments only
		fmt.Sscan(v, &maxDepth)
	}
	nw := runtime.NumCPU()
	if nw > 16 {
		nw = 16
	}
	seen := map[string]bool{}
	var findings []Finding
	frontier := [][]string{nil}
	type res struct {
		path []string
		r    WorkResult
		err  bool
	}
	for depth := 0; depth < maxDepth && len(frontier) > 0; depth++ {
		if time.Now().After(deadline) {
			rep.Complete = false
			break
		}
		in := make(chan []string, len(frontier))
		for _, p := range frontier {
			in <- p
		}
		close(in)
		outc := make(chan res, len(frontier))
		var wg sync.WaitGroup
		for k := 0; k < nw && k < len(frontier); k++ {
			wg.Add(1)
			go func() {
				defer wg.Done()
				var w *worker
				defer func() {
					if w != nil {
						w.stop()
					}
				}()
				for p := range in {
					if time.Now().After(deadline) {
						outc <- res{path: p, err: true}
						continue
					}
					if w == nil {
						var err error
						if w, err = startWorker(); err != nil {
							panic(err)
						}
					}
					b, _ := json.Marshal(WorkItem{Prop: c.Prop, Tier: tier, MSpec: spec.Name, MPath: p})
					w.in.Write(b)
					w.in.WriteByte('\n')
					w.in.Flush()
					line, err := w.out.ReadBytes('\n')
					if err != nil {
						w.cmd.Wait()
						eb, _ := os.ReadFile(w.errPath)
						msg := string(eb)
						if i := strings.Index(msg, "\n\ngoroutine"); i > 0 {
							msg = msg[:i]
						}
						if len(msg) > 500 {
							msg = msg[:500]
						}
						outc <- res{path: p, err: true, r: WorkResult{MSucc: []mc.MSucc{{Action: "?", Viol: []mc.Violation{{Prop: c.Prop, Kind: "crash:" + crashClass(string(eb)), Msg: "gateway process terminated while expanding this state: " + strings.TrimSpace(msg)}}}}}}
						w.stop()
						w = nil
						continue
					}
					var r WorkResult
					json.Unmarshal(line, &r)
					if r.Tainted {
						w.stop()
						w = nil
					}
					outc <- res{path: p, r: r, err: !r.MOK}
				}
			}()
		}
		wg.Wait()
		close(outc)
		var next [][]string
		var all []res
		for r := range outc {
			all = append(all, r)
		}
		sort.Slice(all, func(i, j int) bool { return strings.Join(all[i].path, "\x00") < strings.Join(all[j].path, "\x00") })
		for _, r := range all {
			rep.Executions += r.r.MExecs
			if r.err && len(r.r.MSucc) == 0 {
				rep.Complete = false
				continue
			}
			if depth == 0 && r.r.MKey != "" {
				seen[r.r.MKey] = true
			}
			for _, su := range r.r.MSucc {
				rep.Transitions++
				np := append(append([]string(nil), r.path...), su.Action)
				for _, v := range su.Viol {
					findings = append(findings, Finding{Prop: c.Prop, Kind: v.Kind, Msg: v.Msg, Scenario: "M:" + spec.Name, Tier: tier, Devs: len(np), Schedule: np})
				}
				if su.Key == "" || seen[su.Key] {
					continue
				}
				seen[su.Key] = true
				if su.Final {
					rep.Final++
				}
				next = append(next, np)
				if len(np) >= 4 && len(rep.Sample) == 0 {
					rep.Sample = np
				}
			}
		}
		rep.Depth = depth + 1
		frontier = next
	}
	rep.States = len(seen)
	rep.Fixpoint = len(frontier) == 0 && rep.Complete
	return rep, findings
}

func writeReplay(f *Finding) string {
	b, _ := json.MarshalIndent(f, "", " ")
	h := sha256.Sum256(b)
	path := filepath.Join(Root, "replays", fmt.Sprintf("%s-%s.json", f.Prop, hex.EncodeToString(h[:])[:10]))
	os.WriteFile(path, append(b, '\n'), 0644)
	f.Replay = path
	return path
}

type job struct {
	item WorkItem
	sc   int
	pass int
}

// runScenarios explores every scenario with iterated deviation bounds
// (1, 2, … up to the scenario's bound; unbounded scenarios get one full
// pass) over a pool of worker processes. The statistics reported for a
// scenario are those of its last completed pass.
func runScenarios(c *Check, tier string, scs []*mc.Scenario, deadline time.Time, total *mc.Stats) ([]scenarioReport, []Finding) {
	nw := runtime.NumCPU()
	if nw > 16 {
		nw = 16
	}
	if v := os.Getenv("VERIF_WORKERS"); v != "" {
		fmt.Sscanf(v, "%d", &nw)
	}
	n := len(scs)
	reports := make([]scenarioReport, n)
	final := make([]*mc.Stats, n) // last completed pass
	cur := make([]*mc.Stats, n)   // running pass
	failed := make([]bool, n)     // running pass did not complete
	maxBound := make([]int, n)
	for i, sc := range scs {
		reports[i] = scenarioReport{Name: sc.Name}
		bd, ok := sc.Bound[tier]
		if !ok {
			if bd, ok = c.Bound[tier]; !ok {
				bd = 2
			}
		}
		maxBound[i] = bd
		cur[i] = mc.NewStats()
	}
	var mu sync.Mutex
	var findings []Finding
	jobs := make(chan job, 1<<18)
	var wg sync.WaitGroup
	var pending sync.WaitGroup

	handleCrash := func(j job, w *worker) {
		b, _ := os.ReadFile(filepath.Join(Root, ".work", fmt.Sprintf("cur-%d", w.pid)))
		lines := strings.Split(strings.TrimRight(string(b), "\n"), "\n")
		var sched []string
		if len(lines) > 1 {
			sched = lines[1:]
		}
		eb, _ := os.ReadFile(w.errPath)
		msg := string(eb)
		if i := strings.Index(msg, "\n\ngoroutine"); i > 0 {
			msg = msg[:i]
		}
		if len(msg) > 600 {
			msg = msg[:600]
		}
		kind := "crash:" + crashClass(string(eb))
		mu.Lock()
		findings = append(findings, Finding{Prop: c.Prop, Kind: kind, Msg: "gateway process terminated: " + strings.TrimSpace(msg), Scenario: j.item.Scenario, Tier: tier, Devs: j.item.Devs, Schedule: sched})
		failed[j.sc] = true
		mu.Unlock()
	}

	for k := 0; k < nw; k++ {
		wg.Add(1)
		go func() {
			defer wg.Done()
			var w *worker
			defer func() {
				if w != nil {
					w.stop()
				}
			}()
			cnt := 0
			for j := range jobs {
				if time.Now().After(deadline) {
					mu.Lock()
					failed[j.sc] = true
					mu.Unlock()
					pending.Done()
					continue
				}
				if w == nil || cnt > 300 {
					if w != nil {
						w.stop()
					}
					var err error
					if w, err = startWorker(); err != nil {
						panic(err)
					}
					cnt = 0
				}
				cnt++
				b, _ := json.Marshal(j.item)
				w.in.Write(b)
				w.in.WriteByte('\n')
				w.in.Flush()
				line, err := w.out.ReadBytes('\n')
				if err != nil {
					w.cmd.Wait()
					handleCrash(j, w)
					w.stop()
					w = nil
					pending.Done()
					continue
				}
				var r WorkResult
				json.Unmarshal(line, &r)
				if r.Tainted {
					w.stop()
					w = nil
				}
				mu.Lock()
				cur[j.sc].Merge(r.Stats)
				if !r.Stats.Complete {
					failed[j.sc] = true
				}
				mu.Unlock()
				pending.Done()
			}
		}()
	}

	collect := func(i int) {
		for _, f := range cur[i].Found {
			findings = append(findings, Finding{Prop: c.Prop, Kind: f.V.Kind, Msg: f.V.Msg, Scenario: f.Scenario, Tier: tier, Devs: f.Devs, Schedule: f.Schedule})
		}
	}

	// pass 0: the default schedule of every scenario (in a worker: crash isolation)
	for i, sc := range scs {
		pending.Add(1)
		jobs <- job{item: WorkItem{Prop: c.Prop, Tier: tier, Scenario: sc.Name, Devs: 0, Bound: 0}, sc: i}
	}
	pending.Wait()
	items := make([][][]string, n)
	stopped := make([]bool, n)
	for i, sc := range scs {
		collect(i)
		if failed[i] {
			stopped[i] = true
			final[i] = cur[i]
			continue
		}
		final[i] = cur[i]
		reports[i].DefaultActions = cur[i].MaxLen
		reports[i].Complete = true
		if maxBound[i] != 0 {
			e := &mc.Explorer{Sc: sc, Bound: 1, Stats: mc.NewStats()}
			items[i] = e.Level1()
		}
	}
	maxB := 0
	unb := false
	for _, b := range maxBound {
		if b > maxB {
			maxB = b
		}
		if b < 0 {
			unb = true
		}
	}
	last := maxB
	if unb {
		last = maxB + 1
	}
	for b := 1; b <= last; b++ {
		var active []int
		for i := range scs {
			if stopped[i] {
				continue
			}
			if maxBound[i] < 0 {
				if b != last {
					continue
				}
			} else if b > maxBound[i] {
				continue
			}
			active = append(active, i)
		}
		if len(active) == 0 {
			continue
		}
		if time.Now().After(deadline) {
			for _, i := range active {
				reports[i].Complete = false
			}
			break
		}
		for _, i := range active {
			def := final[i]
			if def.MaxLen == 0 {
				def = cur[i]
			}
			ns := mc.NewStats()
			ns.Executions, ns.Points, ns.MaxLen, ns.Closures = 1, reports[i].DefaultActions+1, reports[i].DefaultActions, 0
			for k := range final[i].Digests {
				ns.Digests[k] = 1
				break
			}
			ns.Samples = final[i].Samples
			cur[i] = ns
			bound := b
			if maxBound[i] < 0 {
				bound = -1
			}
			for _, it := range items[i] {
				pending.Add(1)
				jobs <- job{item: WorkItem{Prop: c.Prop, Tier: tier, Scenario: scs[i].Name, Prefix: it, Devs: 1, Bound: bound}, sc: i, pass: b}
			}
		}
		pending.Wait()
		for _, i := range active {
			collect(i)
			if failed[i] {
				stopped[i] = true
				reports[i].Complete = false
				continue
			}
			final[i] = cur[i]
			if maxBound[i] < 0 {
				reports[i].Unbounded = true
				reports[i].Bound = -1
			} else {
				reports[i].Bound = b
			}
		}
	}
	close(jobs)
	wg.Wait()
	for i := range scs {
		st := final[i]
		reports[i].Executions = st.Executions
		reports[i].Points = st.Points
		reports[i].Digests = len(st.Digests)
		reports[i].MaxLen = st.MaxLen
		reports[i].Diverged = st.Diverged + st.ReplayDiffs
		reports[i].Why = append(reports[i].Why, st.Why...)
		if len(reports[i].Why) == 0 && cur[i] != nil {
			reports[i].Why = cur[i].Why
		}
		if maxBound[i] >= 0 && reports[i].Bound < maxBound[i] {
			reports[i].Complete = false
		}
		if maxBound[i] < 0 && !reports[i].Unbounded {
			reports[i].Complete = false
		}
		st.Found = nil
		total.Merge(st)
	}
	return reports, findings
}

func crashClass(stderr string) string {
	// first resgate frame of the panicking goroutine
	re := regexp.MustCompile(`github.com/resgateio/resgate/([\w/]+)\.([\w\*\.]+|\(\*?\w+\)\.[\w\.]+)`)
	if m := re.FindStringSubmatch(stderr); m != nil {
		return m[1] + "." + m[2]
	}
	return "unknown"
}
