package run

import (
	"strings"
	"time"
	"encoding/json"
	"fmt"
	"os"
	"sort"

	"verif/harness/mc"
)

// Replay re-executes a recorded schedule and prints the annotated trace.
func Replay(path string) int {
	b, err := os.ReadFile(path)
	if err != nil {
		fmt.Fprintln(os.Stderr, err)
		return 2
	}
	var f Finding
	if err := json.Unmarshal(b, &f); err != nil {
		fmt.Fprintln(os.Stderr, err)
		return 2
	}
	c := Registry[f.Prop]
	if c == nil {
		fmt.Fprintln(os.Stderr, "unknown property", f.Prop)
		return 2
	}
	if f.Scenario == "" {
		fmt.Printf("input finding (no schedule): %s\n  %s\n  input: %v\n", f.Kind, f.Msg, f.Input)
		return 0
	}
	tier := f.Tier
	if tier == "" {
		tier = "quick"
	}
	if strings.HasPrefix(f.Scenario, "M:") && c.MSpecs != nil {
		for _, spec := range c.MSpecs(tier) {
			if "M:"+spec.Name != f.Scenario {
				continue
			}
			succ, _, ok, _ := spec.Expand(f.Schedule[:len(f.Schedule)-1], nil)
			fmt.Printf("Mode M path (%d actions, replayed=%v):\n", len(f.Schedule), ok)
			for i, a := range f.Schedule {
				fmt.Printf("%3d   %s\n", i+1, a)
			}
			if os.Getenv("VERIF_VERBOSE") != "" {
				spec.TraceRun(f.Schedule, func(format string, a ...interface{}) { fmt.Printf(format, a...) })
			}
			hit := false
			for _, su := range succ {
				if su.Action != f.Schedule[len(f.Schedule)-1] {
					continue
				}
				for _, v := range su.Viol {
					fmt.Printf("VERDICT %s %s: %s\n", v.Prop, v.Kind, v.Msg)
					if (v.Prop == f.Prop && v.Kind == f.Kind) || v.Prop+":"+v.Kind == f.Kind {
						hit = true
					}
				}
			}
			if hit {
				fmt.Printf("VIOLATION property=%s replay=%s\n", f.Prop, path)
				return 1
			}
			fmt.Println("replay did not reproduce the recorded violation")
			return 0
		}
	}
	sc := scenarioByName(c, tier, f.Scenario)
	if sc == nil {
		fmt.Fprintln(os.Stderr, "unknown scenario", f.Scenario)
		return 2
	}
	if os.Getenv("VERIF_STATES") != "" {
		// step by hand and print the subscriptions of every connection after each action
		w := mc.NewWorld(sc)
		for i := 0; ; i++ {
			en := w.Enabled()
			if len(en) == 0 {
				break
			}
			k := 0
			if i < len(f.Schedule) {
				k = -1
				for j, a := range en {
					if a.Name == f.Schedule[i] {
						k = j
					}
				}
				if k < 0 {
					fmt.Printf("diverged at action %d\n", i)
					break
				}
			}
			w.Do(en[k])
			fmt.Printf("  [%d %s]", i+1, en[k].Name)
			for _, cs := range w.ConnSnaps() {
				for _, sb := range cs.Subs {
					fmt.Printf(" %s:st%d,d%d,i%d,is%d,q%d", sb.RID, sb.State, sb.Direct, sb.Indirect, sb.IndirectSent, sb.QueueFlag)
				}
			}
			for _, e := range w.CacheSnaps() {
				fmt.Printf(" | %s count=%d q=%d", e.Name, e.Count, e.QueueLen)
				for _, r := range e.Resources {
					fmt.Printf(" {%q st%d subs%d}", r.Query, r.State, len(r.Subs))
				}
			}
			fmt.Println()
		}
		w.Close()
	}
	x := mc.RunOnce(sc, f.Schedule, mc.RunOpts{KeepTrace: true})
	fmt.Printf("scenario %s (%d actions, diverged=%v)\n", sc.Name, len(x.Choices), x.Diverged)
	for i, n := range x.Choices {
		mark := " "
		if x.Points[i].Chosen != 0 {
			mark = "*"
		}
		fmt.Printf("%3d %s %s\n", i+1, mark, n)
		for _, r := range x.MQLog {
			if r.Time == i+1 {
				fmt.Printf("        mq  %-5s %s %s\n", r.Kind, r.Subject, r.Payload)
			}
		}
	}
	var labels []string
	for l := range x.Frames {
		labels = append(labels, l)
	}
	sort.Strings(labels)
	for _, l := range labels {
		for _, fr := range x.Frames[l] {
			fmt.Printf("  %s <- %s\n", l, fr)
		}
	}
	hit := false
	for _, v := range x.Viol {
		fmt.Printf("VERDICT %s %s: %s\n", v.Prop, v.Kind, v.Msg)
		if (v.Prop == f.Prop && v.Kind == f.Kind) || v.Prop+":"+v.Kind == f.Kind {
			hit = true
		}
	}
	if hit {
		fmt.Printf("VIOLATION property=%s replay=%s\n", f.Prop, path)
		return 1
	}
	fmt.Println("replay did not reproduce the recorded violation")
	return 0
}

// List prints the registered checks and their scenarios.
func List() {
	var props []string
	for p := range Registry {
		props = append(props, p)
	}
	sort.Strings(props)
	for _, p := range props {
		c := Registry[p]
		fmt.Printf("%s level=%s\n", p, c.Level)
		if c.Scenarios != nil {
			for _, t := range []string{"quick", "thorough"} {
				for _, s := range c.Scenarios(t) {
					fmt.Printf("   %-8s %s\n", t, s.Name)
				}
			}
		}
	}
}

// EnumPartDebug runs one part of a parallel enumeration in this process.
func EnumPartDebug(prop, tier string, part, parts int) {
	c := Registry[prop]
	t0 := time.Now()
	r := c.EnumPar(tier, part, parts, 0, time.Now().Add(time.Hour), func(i int, d string) {
		if os.Getenv("VERIF_VERBOSE") != "" {
			fmt.Fprintf(os.Stderr, "case %d %s\n", i, d)
		}
	})
	fmt.Printf("evaluations=%d distinct=%d found=%d exhaustive=%v in %v\n", r.Evaluations, r.Distinct, len(r.Found), r.Exhaustive, time.Since(t0))
	for _, f := range r.Found {
		fmt.Printf("  %s: %s\n", f.Kind, f.Msg)
	}
}

// RacePass runs the default schedule and every single-deviation schedule of
// each scenario of a property with the scheduler detached. It is meant to be
// built with -race: the race detector reports go to stderr.
func RacePass(prop string, limit int) {
	c := Registry[prop]
	if c == nil || c.Scenarios == nil {
		return
	}
	n := 0
	for _, sc := range c.Scenarios("quick") {
		x := mc.RunOnce(sc, nil, mc.RunOpts{Free: true})
		n++
		// a few named deviations, replayed free-running (names may not be enabled: divergence is fine)
		y := mc.RunOnce(sc, nil, mc.RunOpts{})
		k := 0
		for i, p := range y.Points {
			for alt := 1; alt < len(p.Enabled) && k < limit; alt++ {
				if len(p.Enabled[alt]) > 4 && p.Enabled[alt][:4] == "step" {
					continue
				}
				pre := append(append([]string(nil), y.Choices[:i]...), p.Enabled[alt])
				mc.RunOnce(sc, pre, mc.RunOpts{Free: true})
				k++
				n++
			}
		}
		_ = x
	}
	fmt.Printf("race pass %s: %d free-running executions\n", prop, n)
}

// ScenarioByName looks a scenario up in a property's check.
func ScenarioByName(prop, tier, name string) *mc.Scenario {
	c := Registry[prop]
	if c == nil || c.Scenarios == nil {
		return nil
	}
	if tier == "" {
		tier = "quick"
	}
	return scenarioByName(c, tier, name)
}
