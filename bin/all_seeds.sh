#!/bin/bash
# bin/all_seeds.sh [pattern] - re-runs the quick checks named in each seeded/<id>/meta.json ("checks_run")
# against the seeded change (applied to /repo, then reverted) and writes seeded/RESULTS.tsv.
# Never run while another check is using /repo.
. "$(dirname "$0")/env.sh"
# restore /repo on the way out, but only if this process is the one that changed it
trap '[ -n "$VERIF_REPO_LOCK_HELD" ] && git -C /repo checkout -q -- .' EXIT
out="$VERIF_ROOT/seeded/RESULTS.tsv"
[ -z "$1" ] && : > "$out"
for d in "$VERIF_ROOT"/seeded/${1:-*}/; do
  id=$(basename "$d"); [ -f "$d/patch.diff" ] || continue
  props=$(python3 -c "import json;print(json.load(open('$d/meta.json')).get('checks_run',''))" 2>/dev/null)
  [ -z "$props" ] && props=${id%%-*}
  exec 7>"$VERIF_ROOT/.work/repo.lock"; flock -x 7; export VERIF_REPO_LOCK_HELD=1
  git -C /repo apply "$d/patch.diff" 2>/dev/null || { echo -e "$id\tNO-APPLY" | tee -a "$out"; flock -u 7; unset VERIF_REPO_LOCK_HELD; continue; }
  caught=""; kinds=""
  for p in $props; do
    "$VERIF_ROOT/bin/check" "$p" quick > "$VERIF_ROOT/.work/seed-$id-$p.txt" 2>&1; ec=$?
    [ $ec -eq 1 ] && caught="$caught $p"
    kinds="$kinds$(grep -A1 "^VIOLATION" "$VERIF_ROOT/.work/seed-$id-$p.txt" | grep kind= | sed 's/ deviations=\([0-9]*\)/@\1/; s/^ *kind=//; s/ scenario=/ in /' | sort -u | head -2 | tr '\n' ';')"
  done
  git -C /repo checkout -q -- .
  flock -u 7; unset VERIF_REPO_LOCK_HELD
  r="MISSED"; [ -n "$caught" ] && r="CAUGHT"
  [ "$r" = MISSED ] && [ -f "$d/STATUS.md" ] && r="NOT-CAUGHT, explained in STATUS.md: $(head -1 "$d/STATUS.md" | cut -c1-110)"
  echo -e "$id\t$r\t$(echo $caught)\t$kinds" | tee -a "$out"
done
