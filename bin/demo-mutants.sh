#!/bin/bash
# bin/demo-mutants.sh [pattern]  - for each mutants/<prop>-<name>.patch: does the repository's own suite still pass
# with it (scratch worktree), and does the property's quick check report a violation (applied to /repo, then reverted)?
. "$(dirname "$0")/env.sh"
WT=/tmp/mutwt
git -C /repo worktree remove --force $WT 2>/dev/null
git -C /repo worktree add -q --detach $WT HEAD || exit 2
trap '[ -n "$VERIF_REPO_LOCK_HELD" ] && git -C /repo checkout -q -- . ; git -C /repo worktree remove --force $WT 2>/dev/null' EXIT
out="$VERIF_ROOT/mutants/RESULTS.tsv"
[ -z "$1" ] && : > "$out"
for f in "$VERIF_ROOT"/mutants/${1:-*}.patch; do
  b=$(basename "$f" .patch); prop=${b%%-*}
  ( cd $WT && git apply "$f" && go build ./... ) 2>/dev/null || { echo -e "$b\tDOES-NOT-BUILD\t-" | tee -a "$out"; git -C $WT checkout -q -- .; continue; }
  suite=$(cd $WT && go test -mod=mod -vet=off -count=1 ./... 2>&1 | grep -c "^FAIL\|^--- FAIL")
  git -C $WT checkout -q -- .
  exec 7>"$VERIF_ROOT/.work/repo.lock"; flock -x 7; export VERIF_REPO_LOCK_HELD=1
  git -C /repo apply "$f" || { echo -e "$b\tNO-APPLY\t-" | tee -a "$out"; flock -u 7; unset VERIF_REPO_LOCK_HELD; continue; }
  "$VERIF_ROOT/bin/check" "$prop" quick > "$VERIF_ROOT/.work/mut-$b.txt" 2>&1; ec=$?
  git -C /repo checkout -q -- .
  flock -u 7; unset VERIF_REPO_LOCK_HELD
  kinds=$(grep -A1 "^VIOLATION" "$VERIF_ROOT/.work/mut-$b.txt" | grep kind= | sed 's/ deviations=\([0-9]*\)/@\1/; s/^ *kind=//; s/ scenario=/ in /' | sort -u | head -3 | tr '\n' ';')
  s="suite-passes"; [ "$suite" != "0" ] && s="suite-FAILS($suite)"
  d="MISSED"; [ $ec -eq 1 ] && d="CAUGHT"
  echo -e "$b\t$s\t$d\t$kinds" | tee -a "$out"
done
