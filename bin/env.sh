# common environment of every entry point (offline Go)
export GOFLAGS=-mod=mod GOPROXY=off GOSUMDB=off GOTOOLCHAIN=local
export CGO_ENABLED=0
VERIF_ROOT="${VERIF_ROOT:-$(cd "$(dirname "${BASH_SOURCE[0]}")/.." && pwd)}"
export VERIF_ROOT
export GOCACHE="${GOCACHE:-$VERIF_ROOT/.cache/go-build}"
