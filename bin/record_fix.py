#!/usr/bin/env python3
"""record_fix.py <property> <commit> <what failed>  -- appends a fixed entry to known_findings.json"""
import json, sys
p='/verif/known_findings.json'
k=json.load(open(p))
prop, commit, what = sys.argv[1], sys.argv[2], sys.argv[3]
k.append({"status":"fixed","property":prop,"commit":commit,"what":what,"line":f"fixed: property={prop} {commit} {what}"})
json.dump(k, open(p,'w'), indent=1)
print(k[-1]["line"])
