#!/bin/bash
# bin/try_seed.sh <seed-id> <worktree> <demo test name regex> <property> [more properties]
# 1. confirms in the scratch worktree that the seeded change compiles, keeps the existing suite green,
#    and that the demonstration fails with it and passes without it;
# 2. copies patch + demonstration into /verif/seeded/<seed-id>/;
# 3. applies the patch to /repo, runs the quick checks of the given properties, and reverts /repo.
. "$(dirname "$0")/env.sh"
id=$1; wt=$2; demo=$3; shift 3
out="$VERIF_ROOT/seeded/$id"; mkdir -p "$out"
cp "$wt"/OUT/patch.diff "$out/patch.diff"; cp "$wt"/OUT/*_test.go "$out/" 2>/dev/null; cp "$wt"/OUT/NOTES.md "$out/NOTES.md" 2>/dev/null
cd "$wt" || exit 2
git checkout -q -- server nats
demofile=$(ls test/zz_seed_* 2>/dev/null | head -1)
mkdir -p /tmp/seedhold; rm -rf OUT/*_test.go
[ -n "$demofile" ] && mv "$demofile" /tmp/seedhold/
git apply "$out/patch.diff" || { echo "PATCH DOES NOT APPLY"; exit 2; }
suite=$(go test -mod=mod -vet=off -count=1 ./... 2>&1 | grep -c "^ok")
suitefail=$(go test -mod=mod -vet=off -count=1 ./... 2>&1 | grep -c "^FAIL\|^---")
[ -n "$demofile" ] && mv /tmp/seedhold/$(basename "$demofile") test/
with=$(go test -mod=mod -vet=off -count=1 -run "$demo" ./test/ 2>&1 | tail -1)
git checkout -q -- server nats
without=$(go test -mod=mod -vet=off -count=1 -run "$demo" ./test/ 2>&1 | tail -1)
echo "suite ok-packages=$suite failures=$suitefail | demo with change: $with | demo without: $without"
res="{}"
cd "$VERIF_ROOT"
mkdir -p "$VERIF_ROOT/.work"; exec 7>"$VERIF_ROOT/.work/repo.lock"; flock -x 7; export VERIF_REPO_LOCK_HELD=1
git -C /repo apply "$out/patch.diff" || { echo "PATCH DOES NOT APPLY TO /repo"; exit 2; }
caught=""
for p in "$@"; do
  bin/check "$p" quick > "$VERIF_ROOT/.work/seed-$id-$p.txt" 2>&1; ec=$?
  kinds=$(grep -A1 "^VIOLATION" "$VERIF_ROOT/.work/seed-$id-$p.txt" | grep kind= | sed 's/ deviations=\([0-9]*\)/@\1/; s/^ *kind=//; s/ scenario=/ in /' | sort -u | head -6 | tr '\n' ';')
  echo "  $p: exit=$ec $kinds"
  [ $ec -eq 1 ] && caught="$caught $p"
done
git -C /repo checkout -q -- .
flock -u 7; unset VERIF_REPO_LOCK_HELD
echo "caught by:${caught:- NONE}"
cat > "$out/meta.json" <<EOT
{"seed": "$id", "breaks": "$1", "demo": "$demo", "suite_ok_packages_with_change": $suite, "suite_failures_with_change": $suitefail,
 "demo_with_change": "$(echo $with | tr -d '"')", "demo_without_change": "$(echo $without | tr -d '"')",
 "checks_run": "$*", "caught_by": "$(echo $caught)", "needs": "see NOTES.md"}
EOT
