#!/bin/bash
# Replays the pinned schedules of the open known findings as plain go tests.
. "$(dirname "$0")/env.sh"
"$VERIF_ROOT/bin/build.sh" || exit 2
cd "$VERIF_ROOT/harness" && go test -tags verif -overlay "$VERIF_ROOT/.work/overlay.json" -vet=off -count=1 ./regress/ "$@"
