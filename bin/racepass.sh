#!/bin/bash
# Free-running -race pass over the scenario bodies (diagnostic, not a verdict):
# the cooperative scheduler's hand-offs would hide unsynchronised accesses.
# usage: bin/racepass.sh [property ...]   -> racepass/racepass.txt
. "$(dirname "$0")/env.sh"
export CGO_ENABLED=1
"$VERIF_ROOT/bin/build.sh" || exit 2
cd "$VERIF_ROOT/harness"
go build -race -tags verif -overlay "$VERIF_ROOT/.work/overlay.json" -o "$VERIF_ROOT/.work/resmc-race" ./cmd/resmc || exit 2
cd "$VERIF_ROOT"
props="${@:-C01 C04 C09 C13 C19}"
mkdir -p "$VERIF_ROOT/racepass"; out="$VERIF_ROOT/racepass/racepass.txt"
: > "$out"
for p in $props; do
  GORACE="halt_on_error=0 log_path=$VERIF_ROOT/.work/race-$p" "$VERIF_ROOT/.work/resmc-race" racepass "$p" 15 >> "$out" 2>&1
done
cat "$VERIF_ROOT"/.work/race-* 2>/dev/null | grep -A12 "WARNING: DATA RACE" | grep -E "^\s+(github.com/resgateio|verif/)" | sort | uniq -c | sort -rn | head -40 >> "$out"
echo "distinct racy resgate frames listed in $out"
