#!/bin/bash
# (Re)builds the harness against /repo's current working tree with hooks on.
. "$(dirname "$0")/env.sh"
cd "$VERIF_ROOT/harness"
mkdir -p "$VERIF_ROOT/.work" "$VERIF_ROOT/.cache"
# bin/try_seed.sh, bin/all_seeds.sh and bin/demo-mutants.sh hold this lock exclusively while a deliberate
# change is applied to /repo: a build started by somebody else in that window waits until /repo is restored.
# (Taken before the build lock: the runners' own builds take the build lock while holding this one.)
if [ -z "$VERIF_REPO_LOCK_HELD" ]; then
  exec 8>"$VERIF_ROOT/.work/repo.lock"
  flock -s 8
fi
# serialise concurrent builds
exec 9>"$VERIF_ROOT/.work/build.lock"
flock 9
python3 "$VERIF_ROOT/bin/gen_overlay.py"
cp /repo/go.sum "$VERIF_ROOT/harness/go.sum" 2>/dev/null || true
go build -tags verif -overlay "$VERIF_ROOT/.work/overlay.json" -o "$VERIF_ROOT/.work/resmc" ./cmd/resmc
rc=$?
[ -z "$VERIF_REPO_LOCK_HELD" ] && flock -u 8
exit $rc
