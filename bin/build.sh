#!/bin/bash
# (Re)builds the harness against /repo's current working tree with hooks on.
set -e
. "$(dirname "$0")/env.sh"
cd "$VERIF_ROOT/harness"
mkdir -p "$VERIF_ROOT/.work" "$VERIF_ROOT/.cache"
MODCACHE="$(go env GOMODCACHE)"
cat > "$VERIF_ROOT/.work/overlay.json" <<EOT
{"Replace": {"$MODCACHE/github.com/jirenius/timerqueue@v1.0.0/timerqueue.go": "$VERIF_ROOT/overlay/timerqueue.go"}}
EOT
cp /repo/go.sum "$VERIF_ROOT/harness/go.sum" 2>/dev/null || true
# serialise concurrent builds
exec 9>"$VERIF_ROOT/.work/build.lock"
flock 9
go build -tags verif -overlay "$VERIF_ROOT/.work/overlay.json" -o "$VERIF_ROOT/.work/resmc" ./cmd/resmc
