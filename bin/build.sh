#!/bin/bash
# (Re)builds the harness against /repo's current working tree with hooks on.
set -e
. "$(dirname "$0")/env.sh"
cd "$VERIF_ROOT/harness"
mkdir -p "$VERIF_ROOT/.work" "$VERIF_ROOT/.cache"
# serialise concurrent builds
exec 9>"$VERIF_ROOT/.work/build.lock"
flock 9
python3 "$VERIF_ROOT/bin/gen_overlay.py"
cp /repo/go.sum "$VERIF_ROOT/harness/go.sum" 2>/dev/null || true
go build -tags verif -overlay "$VERIF_ROOT/.work/overlay.json" -o "$VERIF_ROOT/.work/resmc" ./cmd/resmc
