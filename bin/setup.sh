#!/bin/bash
# Offline setup: builds the harness once (warms the build cache).
set -e
. "$(dirname "$0")/env.sh"
"$VERIF_ROOT/bin/build.sh"
echo "setup ok"
