#!/usr/bin/env python3
"""Generates the build overlay of the harness from /repo's current working tree.

 1. timerqueue: the harness owns the eviction timers (overlay/timerqueue.go).
 2. subscriber fan-out order: the loops `for sub := range rs.subs` in
    server/rescache iterate a map in runtime-randomised order; the copies
    written here iterate in registration order instead (verif_order.go), so
    that executions are replayable. The copies are regenerated from /repo's
    files on every build, nothing in /repo is touched.
"""
import json, os, re, subprocess, sys

root = os.environ["VERIF_ROOT"]
repo = "/repo"
work = os.path.join(root, ".work", "ovl")
os.makedirs(work, exist_ok=True)
modcache = subprocess.check_output(["go", "env", "GOMODCACHE"], text=True).strip()
replace = {modcache + "/github.com/jirenius/timerqueue@v1.0.0/timerqueue.go": os.path.join(root, "overlay", "timerqueue.go")}

pkg = os.path.join(repo, "server", "rescache")
loops = regs = 0
for fn in sorted(os.listdir(pkg)):
    if not fn.endswith(".go") or fn.endswith("_test.go") or fn.startswith("verif_"):
        continue
    src = open(os.path.join(pkg, fn)).read()
    out, n1 = re.subn(r"for (\w+) := range (\w+)\.subs \{", r"for _, \1 := range verifOrdered(\2.subs) {", src)
    out, n2 = re.subn(r"(\w+\.subs\[(\w+)\] = struct\{\}\{\})", r"\1; verifSeq(\2)", out)
    loops += n1
    regs += n2
    if n1 or n2:
        dst = os.path.join(work, fn)
        if not os.path.exists(dst) or open(dst).read() != out:
            open(dst, "w").write(out)
        replace[os.path.join(pkg, fn)] = dst
if loops and regs:
    dst = os.path.join(work, "verif_order.go")
    txt = open(os.path.join(root, "overlay", "verif_order.go.txt")).read()
    if not os.path.exists(dst) or open(dst).read() != txt:
        open(dst, "w").write(txt)
    replace[os.path.join(pkg, "verif_order.go")] = dst
else:
    # the code no longer has the shape this rewrite knows: build without it
    # (executions may then diverge on replay and are reported as such)
    sys.stderr.write("gen_overlay: subscriber loops not found (loops=%d regs=%d); fan-out order left to the runtime\n" % (loops, regs))
    replace = {k: v for k, v in replace.items() if "timerqueue" in k}
    open(os.path.join(work, "verif_order.go"), "w").write("//go:build verif\n\npackage rescache\n\nvar VerifSubsReverse bool\n\nfunc VerifResetOrder() {}\n")
    replace[os.path.join(pkg, "verif_order.go")] = os.path.join(work, "verif_order.go")
# 3. extended request timers of the NATS adapter: time.AfterFunc -> verifAfterFunc (overlay/verif_timer.go.txt)
npkg = os.path.join(repo, "nats")
nsrc = open(os.path.join(npkg, "nats.go")).read()
nout, k1 = re.subn(r"\btime\.AfterFunc\(", "verifAfterFunc(", nsrc)
nout, k2 = re.subn(r"\*time\.Timer\b", "verifTimer", nout)
if k1 and k2:
    # the import of "time" stays in use (time.Duration etc.); check it does
    if "time." not in nout.replace('"time"', ""):
        nout = nout.replace('\t"time"\n', "")
    for name, txt in (("nats.go", nout), ("verif_timer.go", open(os.path.join(root, "overlay", "verif_timer.go.txt")).read())):
        dst = os.path.join(work, "nats_" + name)
        if not os.path.exists(dst) or open(dst).read() != txt:
            open(dst, "w").write(txt)
        replace[os.path.join(npkg, name)] = dst
else:
    sys.stderr.write("gen_overlay: time.AfterFunc / *time.Timer not found in nats/nats.go (%d, %d); extended timers stay on the real clock\n" % (k1, k2))
    dst = os.path.join(work, "nats_verif_timer.go")
    open(dst, "w").write("//go:build verif\n\npackage nats\n\nvar VerifManualTimers bool\n\ntype VerifTimer struct{}\n\nvar VerifOnTimer func(t *VerifTimer)\n\nfunc (t *VerifTimer) Fire() bool { return false }\nfunc (t *VerifTimer) Live() bool { return false }\nfunc (t *VerifTimer) Run()       {}\n")
    replace[os.path.join(npkg, "verif_timer.go")] = dst
json.dump({"Replace": replace}, open(os.path.join(root, ".work", "overlay.json"), "w"), indent=1)
