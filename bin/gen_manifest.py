#!/usr/bin/env python3
"""Generates MANIFEST.json from the table below (kept next to the checks so that it stays valid)."""
import json, subprocess, os
ROOT = os.path.dirname(os.path.dirname(os.path.abspath(__file__)))

E1 = "stateless model checking of the real Service: deviation-bounded exhaustive DFS over named schedules under an owned cooperative scheduler, controllable messaging client and owned eviction timers; reference client / atomic service model as oracles"
TB = "Trusted: closure-granularity reduction argument (DESIGN 2.1), the harness' reference client and service model, Go map iteration order observed not enumerated, bounds as reported in evidence (deviation bound, scenario alphabets)."

claimed = {
 # id: (level category, text, technique, design_ref)
 "C01": ("model_checking", "Every schedule of every conv/* scenario within the deviation bound ends with all client copies and cached copies equal to the service state; other families judged at a lower bound.", E1, "6 C01"),
 "C02": ("model_checking", "Every frame of every explored execution is applicable for a reachability-retaining reference client (no dangling reference, no stray event, indexes in range).", E1, "6 C02"),
 "C07": ("model_checking", "At full quiescence of every explored execution each request id has exactly one well-formed response.", E1, "6 C07"),
 "C08": ("model_checking", "Gateway direct counts equal the client-side counter model at every quiet state; unsubscribe verdicts predicted; no residue after failed requests and gets.", E1, "6 C08"),
 "C09": ("model_checking", "Use-count / subscriber / eviction-queue / MQ-subscription invariants on every settled state, get-after-subscribe at the MQ boundary, emptiness and gauges at the end.", E1, "6 C09"),
}
todo = {}
props = [json.loads(l) for l in open(os.path.join(ROOT, "properties.jsonl"))]
checks, na = [], []
for p in props:
    pid = p["id"]
    if pid in claimed:
        cat, text, tech, ref = claimed[pid]
        checks.append({
            "property_id": pid,
            "quick_cmd": f"bin/check {pid} quick",
            "thorough_cmd": f"bin/check {pid} thorough",
            "evidence_file": f"evidence/{pid}.json",
            "replay_cmd_template": "bin/check --replay {path}",
            "engine": "resmc",
            "level_claimed": {"category": cat, "text": text, "design_ref": "DESIGN.md section " + ref},
            "level_note": TB,
            "technique": tech,
        })
    else:
        na.append({"property_id": pid, "reason": todo.get(pid, "check not built yet in this session; planned with the engine described in DESIGN.md section 6 (no technique switch)")})
hooks_commits = subprocess.run(["git", "-C", "/repo", "log", "--format=%H", "--grep=^verif:"], capture_output=True, text=True).stdout.split()
m = {
 "version": 1,
 "setup_cmd": "bash bin/setup.sh",
 "hooks": {
   "guard": "verif",
   "enable": "go build -tags verif -overlay .work/overlay.json (Go build tag; bin/build.sh)",
   "baseline_off_cmd": "cd /repo && GOFLAGS=-mod=mod GOPROXY=off GOSUMDB=off go test -mod=mod -vet=off -count=1 ./...",
   "source_commits": hooks_commits,
   "add_only": True,
 },
 "engines": [
   {"name": "resmc", "path": "harness/", "serves_properties": sorted(claimed), "kind_free_text": "hand-written explicit schedule explorer (cooperative scheduler + deviation-bounded DFS, worker processes) over the real resgate Service, plus exhaustive input enumerators"},
 ],
 "checks": checks,
 "not_applicable": na,
 "notes": "All checks rebuild the harness against /repo's working tree (bin/build.sh). Known genuine defects are listed in known_findings.json.",
}
json.dump(m, open(os.path.join(ROOT, "MANIFEST.json"), "w"), indent=1)
print("checks:", len(checks), "not_applicable:", len(na))
