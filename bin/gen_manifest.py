#!/usr/bin/env python3
"""Generates MANIFEST.json from the table below (kept next to the checks so that it stays valid)."""
import json, subprocess, os
ROOT = os.path.dirname(os.path.dirname(os.path.abspath(__file__)))

E1 = "stateless model checking of the real Service: deviation-bounded exhaustive DFS over named schedules under an owned cooperative scheduler, controllable messaging client and owned eviction timers; reference client / atomic service model as oracles"
TB = "Trusted: closure-granularity reduction argument (DESIGN 2.1), the harness' reference client and service model, Go map iteration order observed not enumerated, bounds as reported in evidence (deviation bound, scenario alphabets)."

E2 = "exhaustive enumeration of a finite input family through the real entry point against an independent reference function (bounded exhaustive exploration, worker processes with crash attribution)"
claimed = {
 "C01": ("model_checking", "Every schedule of the conv/* (and all other) scenarios within the deviation bound ends with all client copies and cached copies equal to the service state.", E1, "6 C01"),
 "C02": ("model_checking", "Every frame of every explored execution is applicable for a reachability-retaining reference client (no dangling reference, no stray event, indexes in range); gc/* graph scenarios.", E1, "6 C02"),
 "C03": ("model_checking", "Numbered event streams (custom + state events) are delivered contiguously from the hand-over snapshot to the last emitted event on every explored schedule.", E1, "6 C03"),
 "C04": ("model_checking", "Every data-carrying response / HTTP 200 is justified by a still-valid get grant for that connection and resource; refusals give the access error.", E1, "6 C04"),
 "C05": ("model_checking", "Every call.* request at the messaging boundary is justified by a still-valid granting access answer; token currency of every request; exhaustive call-list matcher enumeration.", E1 + " + " + E2, "6 C05"),
 "C06": ("model_checking", "After every trigger a re-check with the current token follows for each direct subscription; refusals revoke; nothing emitted after the trigger is delivered before the verdict.", E1, "6 C06"),
 "C07": ("model_checking", "At full quiescence of every explored execution each request id has exactly one well-formed response.", E1, "6 C07"),
 "C08": ("model_checking", "Gateway direct counts equal the client-side counter model at every quiet state; unsubscribe verdicts predicted; no residue after failed requests and gets.", E1, "6 C08"),
 "C09": ("model_checking", "Use-count / subscriber / eviction-queue / MQ-subscription invariants on every settled state, get-after-subscribe at the MQ boundary, emptiness and gauges at the end.", E1, "6 C09"),
 "C10": ("model_checking", "cid/token pairs of every service request, no connection id in any client frame, token state per connection, on every explored schedule of multi-connection scenarios.", E1, "6 C10"),
 "C11": ("model_checking", "A disconnect injected at every choice point of every base history: conn subscription released, no later request on behalf of the connection, no effect of late answers on other connections or the cache, cache use counts consistent. Plus an exhaustive input enumeration of WebSocket handshake exits (allow-list x Origin x header-authentication outcome x client behaviour) in a free-running world, after each of which nothing may be left registered.", E1 + " (fault at every step = one deviation)", "6 C11"),
 "C12": ("model_checking", "Exhaustive matcher and diff enumerations against reference functions; every old/new model pair and collection pair through the real reset path; matching set for all pattern lists of a catalogue; reset overlap scenarios under the schedule explorer.", E2 + " + " + E1, "6 C12"),
 "C13": ("model_checking", "Query aliasing with gets in flight in every order, query event request sets, lock release, no event during the lock, convergence per alias rid.", E1, "6 C13"),
 "C14": ("exploration", "Every method string / HTTP path of a finite alphabet family: hygienic subjects equal to the reference parser's expectation, invalid input rejected without traffic; service-supplied invalid rids never followed.", E2, "6 C14"),
 "C15": ("exploration", "All single-node corruptions of every message kind at several history positions: no crash, no hang, all-or-nothing application, later messages still processed.", E2, "6 C15"),
 "C16": ("exploration", "All rooted resource graphs up to 3 nodes x both encodings through Service.ServeHTTP against an independent renderer; HEAD == GET; POST cases.", E2, "6 C16"),
 "C17": ("exploration", "Full product of error codes, meta statuses, meta header names and Origin/allow-list combinations for GET/POST/OPTIONS/WebSocket upgrade.", E2, "6 C17"),
 "C18": ("model_checking", "Every maximal interleaving of replies, pre-responses, 503s, owned timeout pop/fire, events, Unsubscribe, disconnect and Close for 2-3 concurrent requests of the real adapter against a protocol-level fake server; subject length sweep.", "explicit enumeration of all action sequences of a finite adapter/server model, each replayed against the real nats adapter over loopback TCP (model traces validated against the implementation)", "6 C18"),
 "C19": ("model_checking", "Outstanding governed requests never exceed N x throttles at the messaging boundary on every schedule / answer order; all governed requests eventually published; exhaustive Add/Done sequences on the exported Throttle.", E1 + " + " + E2, "6 C19"),
 "C20": ("fault_enumeration", "Stop / messaging loss injected after every step of 6 base histories over real WebSocket connections: all clients closed, new requests refused, cause reported, restart works.", "fault-point enumeration over (history, step index, fault kind) on the free-running gateway with real sockets", "6 C20"),
}
MM = " + explicit-state breadth-first search (Mode M): environment actions followed by a run to internal quiescence on the real Service, canonical state hashing, successors rebuilt by replaying the shortest path, every state probed with the end-of-run oracles"
for pid, spec in {"C01": "M:events", "C02": "M:gc", "C03": "M:events", "C04": "M:access", "C05": "M:access", "C06": "M:access", "C07": "M:count", "C08": "M:count", "C09": "M:cache", "C10": "M:iso", "C11": "M:cache", "C12": "M:events", "C13": "M:query"}.items():
    cat, text, tech, ref = claimed[pid]
    claimed[pid] = (cat, text + " Also every state of the Mode M space " + spec + " up to the depth reported in evidence.", tech + MM, ref)
TB = TB.replace("Go map iteration order observed not enumerated", "Go map iteration order observed not enumerated except the subscriber fan-out, which runs in registration order (build overlay)")
todo = {}
props = [json.loads(l) for l in open(os.path.join(ROOT, "properties.jsonl"))]
checks, na = [], []
for p in props:
    pid = p["id"]
    if pid in claimed:
        cat, text, tech, ref = claimed[pid]
        checks.append({
            "property_id": pid,
            "quick_cmd": f"bin/check {pid} quick",
            "thorough_cmd": f"bin/check {pid} thorough",
            "evidence_file": f"evidence/{pid}.json",
            "replay_cmd_template": "bin/check --replay {path}",
            "engine": "resmc",
            "level_claimed": {"category": cat, "text": text, "design_ref": "DESIGN.md section " + ref},
            "level_note": TB,
            "technique": tech,
        })
    else:
        na.append({"property_id": pid, "reason": todo.get(pid, "check not built yet in this session; planned with the engine described in DESIGN.md section 6 (no technique switch)")})
hooks_commits = subprocess.run(["git", "-C", "/repo", "log", "--format=%H", "--grep=^verif:"], capture_output=True, text=True).stdout.split()
m = {
 "version": 1,
 "setup_cmd": "bash bin/setup.sh",
 "hooks": {
   "guard": "verif",
   "enable": "go build -tags verif -overlay .work/overlay.json (Go build tag; the overlay - owned timerqueue timers, registration-ordered subscriber fan-out and owned extended request timers of the NATS adapter - is generated from /repo's current files by bin/gen_overlay.py, /repo is not touched; bin/build.sh)",
   "baseline_off_cmd": "cd /repo && GOFLAGS=-mod=mod GOPROXY=off GOSUMDB=off go test -mod=mod -vet=off -count=1 ./...",
   "source_commits": hooks_commits,
   "add_only": True,
 },
 "engines": [
   {"name": "resmc", "path": "harness/", "serves_properties": sorted(claimed), "kind_free_text": "hand-written explicit schedule explorer (cooperative scheduler + deviation-bounded DFS, worker processes) over the real resgate Service, plus exhaustive input enumerators"},
 ],
 "checks": checks,
 "not_applicable": na,
 "notes": "All checks rebuild the harness against /repo's working tree (bin/build.sh). Known genuine defects are listed in known_findings.json (open: printed as KNOWN-FINDING; fixed: one /repo commit each). The hook commits are listed in hooks.source_commits; in addition the repair d93d255 adapts one line of the hook file server/rescache/verif_on.go (the extra cache workers of the harness take the new stop channel). bin/regress.sh replays pinned schedules of open and repaired findings as plain go tests; bin/racepass.sh is a free-running -race diagnostic (not a check); seeded/ and mutants/ hold the deliberate property-breaking changes the checks were tried against (bin/all_seeds.sh, bin/demo-mutants.sh).",
}
json.dump(m, open(os.path.join(ROOT, "MANIFEST.json"), "w"), indent=1)
print("checks:", len(checks), "not_applicable:", len(na))
