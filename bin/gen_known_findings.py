import json
p='/verif/known_findings.json'
k=json.load(open(p))
k=[e for e in k if e.get("status")!="open"]
def add(prop, kind, what, scenario="", match=""):
    k.append({"status":"open","property":prop,"kind":kind,"scenario":scenario,"match":match,"what":what})
lost="subscribe/get/new request outstanding on a resource, then an unsubscribe for the same resource succeeds (it consumes the count taken at request time): the subscription object is disposed either by that unsubscribe, dropping the waiting continuations, or later when requests ending in an error give their counts back one by one, and a request still waiting for the access verdict is then handed the disposed subscription; the outstanding request is never answered"
add("C07", r"^unanswered-after-unsubscribe:", lost)
add("C08", r"^unsubscribe-overlap:", "unsubscribe.X succeeds while subscribe.X is outstanding on a resource that stays held indirectly: the unsubscribe consumes the count taken at request time, then the subscribe succeeds; the client counts one direct subscription, the gateway none (same root cause as the lost response of C07)")
for pp in ["C11","C13","C19"]:
    add(pp, r"^C07:unanswered-after-unsubscribe:", lost)
dele="delete event (sent by the service, or derived from a system.notFound answer to a query request or re-fetch) for a resource that has a get/subscribe request pending or is referenced/subscribed again afterwards: the deleted subscription is reused with stale data, temporary counts are revoked with an unsubscribe event, and the cache use count is released twice"
for pp in ["C01","C02","C08","C09"]:
    add(pp, r"^after-delete:", dele)
add("C11", r"^C0[79]:after-delete:", dele)
add("C03", r"^C01:after-delete:", dele)
add("C07", r"^after-delete:", dele)
add("C13", r"^C0[137]:after-delete:", dele)
add("C19", r"^C0[167]:after-delete:", dele)
uns="a resource whose last sent parent goes away while a still loading parent references it is reset to unsent (Subscription.Unsend) and later sent again from the snapshot taken when it was first loaded: events processed in between are missing from that snapshot (stale client copy) and events arriving while it is unsent are sent to a client that no longer holds it; in reference cycles the decision itself goes wrong (the collector takes the sentness of the released root for every node below it: a member that another still-sent member references is reset to unsent, or a member below an unsent one keeps being counted as sent), so that a later response leaves out a resource the client has dropped"
for pp in ["C01","C02","C03"]:
    add(pp, r"^after-unsend:", uns)
add("C03", r"^C01:after-unsend:", uns)
add("C12", r"^C0[123]:after-unsend:", uns)
add("C13", r"^C0[13]:after-unsend:", uns)
add("C19", r"^C01:after-unsend:", uns)
add("C06", r"^C03:after-unsend:", uns)
add("C02", r"^event-after-get$", "get.<rid> answered while an event for the resource was queued during loading: the queued event is sent right after the get response although a get leaves no subscription")
f=open(p,"w"); json.dump(k, f, indent=1); f.close()
print(len(k),"entries")
