// Package timerqueue provides a timer queue for a list of items that should be processed
// after a fixed duration of time from when they are added to the queue.
// All operations are safe for concurrent use.
package timerqueue

import (
	"sync"
	"time"
)

// Queue holds a list of elements. When a new element is added to the
// queue, the queue callback will be called with the element after
// the set queue duration.
type Queue struct {
	first, last *element
	m           map[interface{}]*element
	mu          sync.Mutex
	duration    time.Duration
	cb          func(v interface{})
	manual      bool // verif: timers fire only when the harness says so
}

type element struct {
	v          interface{}
	next, prev *element
	time       time.Time
}

// New creates a new timer Queue
func New(callback func(interface{}), duration time.Duration) *Queue {
	q := &Queue{
		m:        make(map[interface{}]*element),
		duration: duration,
		cb:       callback,
		manual:   VerifManual,
	}
	if VerifOnNew != nil {
		VerifOnNew(q)
	}
	return q
}

// VerifManual, when set, makes every Queue created afterwards a manual queue:
// no timer goroutine is started; the harness fires elements in the two phases
// of the original timer loop, VerifPop (remove under the queue lock) followed
// later by VerifCall (the callback).
var VerifManual bool

// VerifOnNew, if set, is called with each new Queue.
var VerifOnNew func(q *Queue)

// VerifElems returns the queued elements, oldest first.
func (q *Queue) VerifElems() []interface{} {
	q.mu.Lock()
	defer q.mu.Unlock()
	var out []interface{}
	for el := q.first; el != nil; el = el.next {
		out = append(out, el.v)
	}
	return out
}

// VerifContains reports whether v is queued.
func (q *Queue) VerifContains(v interface{}) bool {
	q.mu.Lock()
	defer q.mu.Unlock()
	_, ok := q.m[v]
	return ok
}

// VerifPop removes v the way the timer loop does when its time is up.
func (q *Queue) VerifPop(v interface{}) bool {
	q.mu.Lock()
	defer q.mu.Unlock()
	el, ok := q.m[v]
	if !ok {
		return false
	}
	q.remove(el)
	delete(q.m, v)
	return true
}

// VerifCall invokes the queue callback for v (second phase of the timer loop).
func (q *Queue) VerifCall(v interface{}) {
	q.cb(v)
}

// Add adds a new element to the timer Queue, starting a timer
// for the fixed duration for the queue. Once the duration
// has passed, the queue callback will be called.
func (q *Queue) Add(v interface{}) {
	q.mu.Lock()
	defer q.mu.Unlock()

	// Ensure it is not a duplicate
	if _, ok := q.m[v]; ok {
		panic("Value already in queue")
	}

	el := &element{v: v, time: time.Now().Add(q.duration)}

	q.m[v] = el
	q.push(el)
	if q.manual {
		return
	}
	if el == q.first {
		go q.timer(el, el.time)
	}
}

// Len returns the number of elements in the queue
func (q *Queue) Len() int {
	q.mu.Lock()
	defer q.mu.Unlock()

	return len(q.m)
}

// Clear removes all elements from the queue.
// Returns a slice of the elements cleared from the queue.
func (q *Queue) Clear() []interface{} {
	el, l := q.clear()
	elems := make([]interface{}, l)
	for i := 0; el != nil; i++ {
		elems[i] = el.v
		el = el.next
	}
	return elems
}

// Flush calls the callback for each element in the queue.
// Any new element added while flushing, will not be called.
func (q *Queue) Flush() {
	el, _ := q.clear()

	for el != nil {
		q.cb(el.v)
		el = el.next
	}
}

// Remove removes an element from the queue.
// Returns false if the element was not in the queue, otherwise true.
func (q *Queue) Remove(v interface{}) bool {
	q.mu.Lock()
	defer q.mu.Unlock()

	el, ok := q.m[v]
	if !ok {
		return false
	}

	first := q.first
	delete(q.m, v)
	q.remove(el)

	// If the element was first, we need to start a new timer
	if !q.manual && first == el && q.first != nil {
		go q.timer(q.first, q.first.time)
	}
	return true
}

// Reset sets the time of the element callback back to full duration.
// Returns false if the the element was not in the queue, otherwise true.
func (q *Queue) Reset(v interface{}) bool {
	q.mu.Lock()
	defer q.mu.Unlock()

	el, ok := q.m[v]
	if !ok {
		return false
	}

	el.time = time.Now().Add(q.duration)
	first := q.first
	q.remove(el)
	q.push(el)

	// If the element was first, we need to start a new timer
	if !q.manual && first == el {
		go q.timer(q.first, q.first.time)
	}
	return true
}

func (q *Queue) clear() (*element, int) {
	q.mu.Lock()
	defer q.mu.Unlock()

	first := q.first
	q.first = nil
	q.last = nil
	l := len(q.m)
	q.m = make(map[interface{}]*element)
	return first, l
}

func (q *Queue) remove(el *element) {

	if q.first == el {
		q.first = el.next
	} else {
		el.prev.next = el.next
	}

	if q.last == el {
		q.last = el.prev
	} else {
		el.next.prev = el.prev
	}
}

func (q *Queue) push(el *element) {

	last := q.last
	if last != nil {
		last.next = el
		el.prev = last
	} else {
		q.first = el
		el.prev = nil
	}

	el.next = nil
	q.last = el
}

func (q *Queue) timer(el *element, t time.Time) {
	var v interface{}
	for {
		time.Sleep(t.Sub(time.Now()))

		q.mu.Lock()
		// Check if the first element has changed
		if el != q.first || t != el.time {
			q.mu.Unlock()
			break
		}

		v = el.v
		q.remove(el)
		delete(q.m, v)

		el = q.first
		if el == nil {
			q.mu.Unlock()
			q.cb(v)
			break
		}
		t = el.time
		q.mu.Unlock()

		q.cb(v)
	}
}
